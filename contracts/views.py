"""Contracts: accessors of the node / edge views (xgi/core/views.py), C06.

The receiver is an unfiltered view of a symbolic network (parameter kind `view:<which>:<kind>`: the fields
installed by IDView.__init__ alias the network's tables and `_ids is _id_dict`).  These contracts are what the
executor's built-in model of the same accessors (pyvc/views_model.py, used when *other* functions call
`H.edges.members(e)`, `H.nodes.neighbors(n)`, ...) assumes; here they are discharged against the real bodies, so
that model is no longer part of the trusted base for the accessors listed in VERIFIED_ACCESSORS.
"""
import z3

from pyvc.spec import *
from pyvc.values import VSet, VDict, VTuple, VList, VBool, VInt, VAttr
from pyvc.symexec import Unsupported

VQ = "xgi/core/views.py::"
PROPS = ("C06",)
VERIFIED_ACCESSORS = []


def _own(S, which):
    """(keys, map) of the table the view ranges over, undirected kinds."""
    return (S.nk, S.N) if which == "nodes" else (S.ek, S.E)


def _bi(S, which):
    return (S.ek, S.E) if which == "nodes" else (S.nk, S.N)


def _fresh_set(r):
    """The returned set object is not one of the table's own sets (a copy)."""
    return isinstance(r, VSet) and r.home is None and r.rec is None


def _shape(ok, what):
    if not ok:
        raise Unsupported("result of %s has a shape the contract does not describe" % what)


def view_contract(name, vkind, params, which):
    s = contract(VQ + name, [("self", vkind)] + params)
    s.modifies = []
    s.result = "auto"
    s.ens_all("state-unchanged", ("C06", "C08"), lambda c, A, R: same_state(c, A.S0, R.S))
    VERIFIED_ACCESSORS.append(name)
    return s


def _key_ok(c, t):
    return z3.Or(t == c.NONE, c.hashable(t))


# ------------------------------------------------------------------ IDView: len / contains / ids / attribute record
s = view_contract("IDView.__len__", "view:nodes:H", [], "nodes")
s.variants = [{"self": "view:nodes:H"}, {"self": "view:edges:H"}, {"self": "view:nodes:DH"}, {"self": "view:edges:DH"}]
s.ens("number-of-ids", PROPS, lambda c, A, R: R.result.term == c.card(A.S0.nk if A.view_which["self"] == "nodes" else A.S0.ek))

s = view_contract("IDView.__contains__", "view:nodes:H", [("idx", "val")], "nodes")
s.variants = [{"self": "view:nodes:H"}, {"self": "view:edges:H"}, {"self": "view:nodes:DH"}, {"self": "view:edges:DH"}]
s.req("hashable", lambda c, A: c.hashable(A.idx.term), PROPS)
s.ens("is-current-id", PROPS, lambda c, A, R: R.result.term == sel(A.S0.nk if A.view_which["self"] == "nodes" else A.S0.ek, A.idx.term))

s = view_contract("IDView.__getitem__", "view:nodes:H", [("idx", "val")], "nodes")
s.variants = [{"self": "view:nodes:H"}, {"self": "view:edges:H"}, {"self": "view:nodes:DH"}, {"self": "view:edges:DH"}]
s.req("hashable", lambda c, A: c.hashable(A.idx.term), PROPS)
s.req("Inv", lambda c, A: Inv(c, A.S0), PROPS)


def _getitem_post(c, A, R):
    S = A.S0
    nodes = A.view_which["self"] == "nodes"
    _shape(isinstance(R.result, VAttr), "__getitem__")
    h, v = R.result.get()
    return z3.And(sel(S.nk if nodes else S.ek, A.idx.term), h == sel(S.NAh if nodes else S.EAh, A.idx.term), v == sel(S.NAv if nodes else S.EAv, A.idx.term))


s.ens("attribute-record-of-the-id", PROPS, _getitem_post)
s.exc("IDNotFound", "not-an-id", PROPS, lambda c, A, R: z3.Not(sel(A.S0.nk if A.view_which["self"] == "nodes" else A.S0.ek, A.idx.term)))


# ------------------------------------------------------------------ memberships / members (undirected, simplicial)
def _one_or_all(c, A, R, key, keys, fn, what):
    """key given: a fresh set equal to fn(key);  key None: a dict on exactly `keys` with fresh values fn(k)."""
    r = R.result
    if isinstance(r, VSet):
        _shape(_fresh_set(r), what)
        return z3.And(key != c.NONE, sel(keys, key), r.get() == fn(key))
    if isinstance(r, VDict):
        _shape(r.valkind == "set" and getattr(r, "fresh_values", False), what)
        return z3.And(r.keys == keys, c.forall(["id"], lambda k: z3.Implies(sel(keys, k), sel(r.fields["v"], k) == fn(k))))
    if isinstance(r, VList):
        # dtype=list: the copies in view order; the model tracks the element multiset only as (content, length)
        raise Unsupported("list of sets")
    _shape(False, what)


s = view_contract("NodeView.memberships", "view:nodes:H", [("n", "val", None)], "nodes")
s.variants = [{"self": "view:nodes:H"}, {"self": "view:nodes:SC"}]
s.req("key", lambda c, A: _key_ok(c, A.n.term), PROPS)
s.ens("copy-of-the-memberships", PROPS, lambda c, A, R: _one_or_all(c, A, R, A.n.term, A.S0.nk, lambda k: sel(A.S0.N, k), "memberships"))
s.exc("IDNotFound", "not-a-node", PROPS, lambda c, A, R: z3.And(A.n.term != c.NONE, z3.Not(sel(A.S0.nk, A.n.term))))

s = view_contract("EdgeView.members", "view:edges:H", [("e", "val", None), ("dtype", "val")], "edges")
s.variants = [{"self": "view:edges:H"}, {"self": "view:edges:SC"}]
s.req("key", lambda c, A: _key_ok(c, A.e.term), PROPS)
s.req("dtype-dict-when-all", lambda c, A: z3.Implies(A.e.term == c.NONE, z3.Function("is_class_dict", c.Id, z3.BoolSort())(A.dtype.term)), PROPS)
s.ens("copy-of-the-members", PROPS, lambda c, A, R: _one_or_all(c, A, R, A.e.term, A.S0.ek, lambda k: sel(A.S0.E, k), "members"))
s.exc("IDNotFound", "not-an-edge", PROPS, lambda c, A, R: z3.And(A.e.term != c.NONE, z3.Not(sel(A.S0.ek, A.e.term))))


# ------------------------------------------------------------------ neighbors
def _nbrs(c, S, which, i, s_):
    """{j != i | card(D i & D j) >= s}  (for s = 1: i and j share an element of the other kind); D = own table."""
    keys, D = _own(S, which)
    return c.setof(lambda j: z3.And(j != i, sel(keys, j), c.card(c.inter(sel(D, i), sel(D, j))) >= s_))


def _nbrs1(c, S, which, i):
    keys, D = _own(S, which)
    bk, B = _bi(S, which)
    return c.setof(lambda j: z3.And(j != i, c.exists(["id"], lambda n: z3.And(sel(D, i, n), sel(B, n, j)))))


def _neighbors_post(c, A, R):
    which = A.view_which["self"]
    S = A.S0
    r = R.result
    _shape(isinstance(r, VSet) and _fresh_set(r), "neighbors")
    i = A.idx.term
    one = A.s.term == 1
    # s = 1: share at least one element (definition through the two-way incidence);  s > 1: at least s common elements
    return z3.And(z3.Implies(one, r.get() == _nbrs1(c, S, which, i)),
                  z3.Implies(z3.Not(one), c.forall(["id"], lambda j: sel(r.get(), j) == z3.And(
                      j != i, c.exists(["id"], lambda n: z3.And(sel(_own(S, which)[1], i, n), sel(_bi(S, which)[1], n, j))),
                      c.card(c.inter(sel(_own(S, which)[1], i), sel(_own(S, which)[1], j))) >= A.s.term))))


s = view_contract("IDView.neighbors", "view:nodes:H", [("idx", "val"), ("s", "int", 1)], "nodes")
s.variants = [{"self": "view:nodes:H"}, {"self": "view:edges:H"}, {"self": "view:nodes:SC"}, {"self": "view:edges:SC"}]
s.req("hashable", lambda c, A: c.hashable(A.idx.term), PROPS)
s.req("UInv", lambda c, A: UInv(c, A.S0), PROPS)
s.ens("ids-sharing-s-elements", PROPS + ("C09",), _neighbors_post)
s.exc("IDNotFound", "not-an-id", PROPS, lambda c, A, R: z3.Not(sel(_own(A.S0, A.view_which["self"])[0], A.idx.term)))


# ------------------------------------------------------------------ directed accessors
def _pair_or_all(c, A, R, key, keys, f_in, f_out, what):
    r = R.result
    if isinstance(r, VTuple):
        _shape(len(r.items) == 2 and all(_fresh_set(x) for x in r.items), what)
        return z3.And(key != c.NONE, sel(keys, key), r.items[0].get() == f_in(key), r.items[1].get() == f_out(key))
    raise Unsupported("dict of pairs")


s = view_contract("DiNodeView.dimemberships", "view:nodes:DH", [("n", "val")], "nodes")
s.req("key", lambda c, A: z3.And(A.n.term != c.NONE, c.hashable(A.n.term)), PROPS)
s.ens("copies-of-in-and-out-memberships", PROPS, lambda c, A, R: _pair_or_all(
    c, A, R, A.n.term, A.S0.nk, lambda k: sel(A.S0.Nin, k), lambda k: sel(A.S0.Nout, k), "dimemberships"))
s.exc("IDNotFound", "not-a-node", PROPS, lambda c, A, R: z3.Not(sel(A.S0.nk, A.n.term)))

s = view_contract("DiNodeView.memberships", "view:nodes:DH", [("n", "val", None)], "nodes")
s.req("key", lambda c, A: _key_ok(c, A.n.term), PROPS)
s.ens("union-of-in-and-out-memberships", PROPS, lambda c, A, R: _one_or_all(
    c, A, R, A.n.term, A.S0.nk, lambda k: c.union(sel(A.S0.Nin, k), sel(A.S0.Nout, k)), "memberships"))
s.exc("IDNotFound", "not-a-node", PROPS, lambda c, A, R: z3.And(A.n.term != c.NONE, z3.Not(sel(A.S0.nk, A.n.term))))

s = view_contract("DiEdgeView.dimembers", "view:edges:DH", [("e", "val"), ("dtype", "val")], "edges")
s.req("key", lambda c, A: z3.And(A.e.term != c.NONE, c.hashable(A.e.term)), PROPS)
s.ens("copies-of-tail-and-head", PROPS, lambda c, A, R: _pair_or_all(
    c, A, R, A.e.term, A.S0.ek, lambda k: sel(A.S0.Ein, k), lambda k: sel(A.S0.Eout, k), "dimembers"))
s.exc("IDNotFound", "not-an-edge", PROPS, lambda c, A, R: z3.Not(sel(A.S0.ek, A.e.term)))

for nm, fn, label in (("members", lambda c, S, k: c.union(sel(S.Ein, k), sel(S.Eout, k)), "union-of-tail-and-head"),
                      ("head", lambda c, S, k: sel(S.Eout, k), "copy-of-the-head"),
                      ("tail", lambda c, S, k: sel(S.Ein, k), "copy-of-the-tail")):
    s = view_contract("DiEdgeView." + nm, "view:edges:DH", [("e", "val", None), ("dtype", "val")], "edges")
    s.req("key", lambda c, A: _key_ok(c, A.e.term), PROPS)
    s.req("dtype-dict-when-all", lambda c, A: z3.Implies(A.e.term == c.NONE, z3.Function("is_class_dict", c.Id, z3.BoolSort())(A.dtype.term)), PROPS)
    s.ens(label, PROPS, lambda c, A, R, fn=fn, nm=nm: _one_or_all(c, A, R, A.e.term, A.S0.ek, lambda k: fn(c, A.S0, k), nm))
    s.exc("IDNotFound", "not-an-edge", PROPS, lambda c, A, R: z3.And(A.e.term != c.NONE, z3.Not(sel(A.S0.ek, A.e.term))))


# ------------------------------------------------------------------ set functions built on from_view / filterby (both assumed, pyvc/views_model.py)
def _content(c, R, what):
    from pyvc.values import VVal
    _shape(isinstance(R.result, VVal), what)
    return c.content(R.result.term)


def _content_is(c, R, what, pred):
    """Element-wise statement (no array extensionality needed): x is in the returned sub-view iff pred(x)."""
    S = _content(c, R, what)
    return c.forall(["id"], lambda x: sel(S, x) == pred(x))


def _iter_pre(c, t):
    return z3.And(c.iterable(t), z3.Not(c.one_shot(t)), c.elems_hashable(t))


s = view_contract("IDView.lookup", "view:nodes:H", [("neighbors", "val")], "nodes")
s.variants = [{"self": "view:nodes:H"}, {"self": "view:edges:H"}, {"self": "view:edges:SC"}]
s.req("iterable-of-ids", lambda c, A: _iter_pre(c, A.neighbors.term), PROPS)
s.ens("ids-whose-set-equals-the-argument", PROPS + ("C09",), lambda c, A, R: _content_is(c, R, "lookup",
    lambda i: z3.And(sel(_own(A.S0, A.view_which["self"])[0], i), sel(_own(A.S0, A.view_which["self"])[1], i) == c.content(A.neighbors.term))))
s.notes = "modulo the assumed from_view model (result = sub-view with exactly the ids of the computed bunch)"


def _iso_loop(c, A, K):
    S = A.S0
    acc = K.ex.tset(K.L("nodes_in_edges"))
    return [("inv", PROPS, z3.And(
        same_state(c, S, K.S), K.content == S.ek,
        c.forall(["id", "id"], lambda n, e: z3.Implies(z3.And(sel(K.done, e), c.card(sel(S.E, e)) != 1, sel(S.E, e, n)), sel(acc, n))),
        c.forall(["id"], lambda n: z3.Implies(sel(acc, n), c.exists(["id"], lambda e: z3.And(sel(K.done, e), sel(S.ek, e), c.card(sel(S.E, e)) != 1, sel(S.E, e, n)))))))]


s = view_contract("NodeView.isolates", "view:nodes:H", [("ignore_singletons", "bool", False)], "nodes")
s.variants = [{"self": "view:nodes:H"}, {"self": "view:nodes:SC"}]
s.req("UInv", lambda c, A: UInv(c, A.S0), PROPS)
s.loop("for members in self._bi_id_dict.values()", _iso_loop)
_isoC = lambda c, R: _content(c, R, "isolates")
s.ens("listed-nodes-have-no-counting-edge", PROPS + ("C09",), lambda c, A, R: c.forall(["id", "id"], lambda n, e: z3.Implies(
    z3.And(sel(_isoC(c, R), n), sel(A.S0.ek, e), sel(A.S0.E, e, n)), z3.And(A.ignore_singletons.term, c.card(sel(A.S0.E, e)) == 1))))
s.ens("listed-are-nodes", PROPS, lambda c, A, R: c.forall(["id"], lambda n: z3.Implies(sel(_isoC(c, R), n), sel(A.S0.nk, n))))
s.ens("unlisted-nodes-have-a-counting-edge", PROPS + ("C09",), lambda c, A, R: c.forall(["id"], lambda n: z3.Implies(
    z3.And(sel(A.S0.nk, n), z3.Not(sel(_isoC(c, R), n))), c.exists(["id"], lambda e: z3.And(
        sel(A.S0.ek, e), sel(A.S0.E, e, n), z3.Or(z3.Not(A.ignore_singletons.term), c.card(sel(A.S0.E, e)) != 1))))))
s.notes = "ignore_singletons=True: loop invariant over the member sets; False: through the assumed filterby('degree', 0) model"

s = view_contract("EdgeView.singletons", "view:edges:H", [], "edges")
s.variants = [{"self": "view:edges:H"}, {"self": "view:edges:SC"}]
s.ens("edges-of-size-one", PROPS, lambda c, A, R: _content_is(c, R, "singletons", lambda e: z3.And(sel(A.S0.ek, e), c.card(sel(A.S0.E, e)) == 1)))
s.notes = "one-line wrapper of the assumed filterby('size', 1) model"
s = view_contract("EdgeView.empty", "view:edges:H", [], "edges")
s.ens("edges-of-size-zero", PROPS, lambda c, A, R: _content_is(c, R, "empty", lambda e: z3.And(sel(A.S0.ek, e), sel(A.S0.E, e) == c.EMPTY)))
s.notes = "one-line wrapper of the assumed filterby('size', 0) model"


# directed twins of the filterby-based set functions
s = view_contract("DiNodeView.isolates", "view:nodes:DH", [], "nodes")
s.ens("nodes-in-no-tail-and-no-head", PROPS, lambda c, A, R: _content_is(c, R, "isolates", lambda n: z3.And(
    sel(A.S0.nk, n), sel(A.S0.Nin, n) == c.EMPTY, sel(A.S0.Nout, n) == c.EMPTY)))
s.notes = "one-line wrapper of the assumed filterby('degree', 0) model"
s = view_contract("DiEdgeView.empty", "view:edges:DH", [], "edges")
s.ens("edges-with-empty-tail-and-head", PROPS, lambda c, A, R: _content_is(c, R, "empty", lambda e: z3.And(
    sel(A.S0.ek, e), sel(A.S0.Ein, e) == c.EMPTY, sel(A.S0.Eout, e) == c.EMPTY)))
s.notes = "one-line wrapper of the assumed filterby('size', 0) model"
