"""Contracts: xgi/core/dihypergraph.py (directed hypergraph).  Properties C02, C04, C05, C18.

_node[n]["out"] lists the edges whose tail (_edge[e]["in"]) contains n; _node[n]["in"] those whose
head (_edge[e]["out"]) contains n.
"""
import z3

from pyvc.spec import *

D = "xgi/core/dihypergraph.py::DiHypergraph."
ALL = ("C02", "C04", "C05")


def G(label, props, f):
    return (label, props, f)


def std(s):
    s.req("DInv", lambda c, A: DInv(c, A.S0), ("C02",))
    s.req("Fresh", lambda c, A: Fresh(c, A.S0), ("C02", "C04"))
    s.ens_all("DInv", ("C02",), lambda c, A, R: DInv(c, R.S))
    s.ens_all("Fresh", ("C02", "C04"), lambda c, A, R: Fresh(c, R.S))
    return s


def tail_way(c, S, skip=None):
    g = (lambda e: e != skip) if skip is not None else (lambda e: z3.BoolVal(True))
    return c.forall(["id", "id"], lambda n, e: z3.Implies(g(e), z3.And(sel(S.nk, n), sel(S.Nout, n, e)) == z3.And(sel(S.ek, e), sel(S.Ein, e, n))))


def head_way(c, S, skip=None):
    g = (lambda e: e != skip) if skip is not None else (lambda e: z3.BoolVal(True))
    return c.forall(["id", "id"], lambda n, e: z3.Implies(g(e), z3.And(sel(S.nk, n), sel(S.Nin, n, e)) == z3.And(sel(S.ek, e), sel(S.Eout, e, n))))


def keys_ok(c, S):
    return z3.And(S.nk == S.nak, S.ek == S.eak, z3.Not(sel(S.nk, c.NONE)), z3.Not(sel(S.ek, c.NONE)))


def net_same(c, S, S0):
    return z3.And(S.uid == S0.uid, S.neth == S0.neth, S.netv == S0.netv)


def node_attrs_same_on(c, S, S0):
    return c.forall(["id"], lambda n: z3.Implies(z3.And(sel(S0.nak, n), sel(S.nak, n)), z3.And(sel(S.NAh, n) == sel(S0.NAh, n), sel(S.NAv, n) == sel(S0.NAv, n))))


def edge_attrs_same_on(c, S, S0):
    return c.forall(["id"], lambda e: z3.Implies(z3.And(sel(S0.eak, e), sel(S.eak, e)), z3.And(sel(S.EAh, e) == sel(S0.EAh, e), sel(S.EAv, e) == sel(S0.EAv, e))))


def edges_same_on(c, S, S0):
    return c.forall(["id"], lambda e: z3.Implies(z3.And(sel(S0.ek, e), sel(S.ek, e)), z3.And(sel(S.Ein, e) == sel(S0.Ein, e), sel(S.Eout, e) == sel(S0.Eout, e))))


def nodes_same_on(c, S, S0):
    return c.forall(["id"], lambda n: z3.Implies(z3.And(sel(S0.nk, n), sel(S.nk, n)), z3.And(sel(S.Nin, n) == sel(S0.Nin, n), sel(S.Nout, n) == sel(S0.Nout, n))))


def frozen_exc(s):
    s.exc("XGIError", "only-when-frozen", ("C18",), lambda c, A, R: A.S0.shadow.any())
    return s


# ------------------------------------------------------------------ add_node / add_nodes_from
s = std(contract(D + "add_node", [("self", "net:DH"), ("node", "val"), ("attr", "kwattr")]))
s.exc("XGIError", "none-node", ("C05",), lambda c, A, R: z3.And(A.node.term == c.NONE, same_state(c, A.S0, R.S)))
s.exc("TypeError", "unhashable", ("C05",), lambda c, A, R: z3.And(z3.Not(c.hashable(A.node.term)), same_state(c, A.S0, R.S)))
s.ens("effect", ("C05",), lambda c, A, R: z3.And(
    R.S.nk == c.add(A.S0.nk, A.node.term), R.S.ek == A.S0.ek, edges_same_on(c, R.S, A.S0), nodes_same_on(c, R.S, A.S0),
    z3.Implies(z3.Not(sel(A.S0.nk, A.node.term)), z3.And(sel(R.S.Nin, A.node.term) == c.EMPTY, sel(R.S.Nout, A.node.term) == c.EMPTY)),
    R.S.uid == A.S0.uid))


def _edges_untouched(c, S, S0):
    return z3.And(S.ek == S0.ek, S.eak == S0.eak, net_same(c, S, S0), edges_same_on(c, S, S0), edge_attrs_same_on(c, S, S0))


def _nodes_only_added(c, S, S0):
    return z3.And(c.subset(S0.nk, S.nk), nodes_same_on(c, S, S0),
                  c.forall(["id"], lambda n: z3.Implies(z3.And(sel(S.nk, n), z3.Not(sel(S0.nk, n))), z3.And(sel(S.Nin, n) == c.EMPTY, sel(S.Nout, n) == c.EMPTY))))


from contracts.common import setter_loop, setter_post, anf_post as _anf_post  # noqa: E402


s = std(contract(D + "add_nodes_from", [("self", "net:DH"), ("nodes_for_adding", "val"), ("attr", "kwattr")]))
s.loop("for n in nodes_for_adding", lambda c, A, K: [
    G("struct", ("C02",), DInv(c, K.S)), G("fresh", ("C02", "C04"), z3.And(Fresh(c, K.S), _edges_untouched(c, K.S, A.S0))),
    G("frame", ("C05",), z3.And(_nodes_only_added(c, K.S, A.S0), rec_eq(c, A.attr.get()[0], A.attr.get()[1], A.kw0["attr"][0], A.kw0["attr"][1])))],
    post=_anf_post)
s.ens_all("edges-untouched", ("C04", "C05"), lambda c, A, R: _edges_untouched(c, R.S, A.S0))
s.ens_all("nodes-only-added", ("C05",), lambda c, A, R: _nodes_only_added(c, R.S, A.S0))
s.exc("XGIError")
s.exc("TypeError")
s.exc("ValueError")


# ------------------------------------------------------------------ remove_edge / remove_edges_from
def _re_tail_loop(c, A, K):
    S, S0, e = K.S, A.S0, A.idx.term
    return [G("inv", ALL, z3.And(
        DInv(c, S0), Fresh(c, S0), sel(S0.ek, e), K.content == sel(S0.Ein, e),
        S.nk == S0.nk, S.ek == S0.ek, S.nak == S0.nak, S.eak == S0.eak, net_same(c, S, S0),
        edges_same_on(c, S, S0), node_attrs_same_on(c, S, S0), edge_attrs_same_on(c, S, S0),
        c.forall(["id"], lambda n: z3.Implies(sel(S0.nk, n), z3.And(
            sel(S.Nin, n) == sel(S0.Nin, n),
            sel(S.Nout, n) == z3.If(sel(K.done, n), c.rem(sel(S0.Nout, n), e), sel(S0.Nout, n)))))))]


def _re_head_loop(c, A, K):
    S, S0, e = K.S, A.S0, A.idx.term
    return [G("inv", ALL, z3.And(
        DInv(c, S0), Fresh(c, S0), sel(S0.ek, e), K.content == sel(S0.Eout, e),
        S.nk == S0.nk, S.ek == S0.ek, S.nak == S0.nak, S.eak == S0.eak, net_same(c, S, S0),
        edges_same_on(c, S, S0), node_attrs_same_on(c, S, S0), edge_attrs_same_on(c, S, S0),
        c.forall(["id"], lambda n: z3.Implies(sel(S0.nk, n), z3.And(
            sel(S.Nout, n) == c.rem(sel(S0.Nout, n), e),
            sel(S.Nin, n) == z3.If(sel(K.done, n), c.rem(sel(S0.Nin, n), e), sel(S0.Nin, n)))))))]


def _re_effect(c, A, R):
    S, S0, e = R.S, A.S0, A.idx.term
    return z3.And(S.ek == c.rem(S0.ek, e), S.nk == S0.nk, net_same(c, S, S0), edges_same_on(c, S, S0),
                  c.forall(["id"], lambda n: z3.Implies(sel(S0.nk, n), z3.And(
                      sel(S.Nout, n) == c.rem(sel(S0.Nout, n), e), sel(S.Nin, n) == c.rem(sel(S0.Nin, n), e)))),
                  node_attrs_same_on(c, S, S0), edge_attrs_same_on(c, S, S0))


s = std(contract(D + "remove_edge", [("self", "net:DH"), ("idx", "val")]))
s.loop("for node in edge['in']", _re_tail_loop)
s.loop("for node in edge['out']", _re_head_loop)
s.ens("effect", ("C05",), _re_effect)
s.exc("IDNotFound", "missing-id", ("C05",), lambda c, A, R: z3.And(z3.Not(sel(A.S0.ek, A.idx.term)), same_state(c, A.S0, R.S)))
s.exc("TypeError", "unhashable-id", ("C05",), lambda c, A, R: z3.And(z3.Not(c.hashable(A.idx.term)), same_state(c, A.S0, R.S)))


def _only_removed(c, S, S0):
    return z3.And(c.subset(S.nk, S0.nk), c.subset(S.ek, S0.ek), net_same(c, S, S0),
                  c.forall(["id"], lambda e: z3.Implies(sel(S.ek, e), z3.And(c.subset(sel(S.Ein, e), sel(S0.Ein, e)), c.subset(sel(S.Eout, e), sel(S0.Eout, e))))),
                  c.forall(["id"], lambda n: z3.Implies(sel(S.nk, n), z3.And(c.subset(sel(S.Nin, n), sel(S0.Nin, n)), c.subset(sel(S.Nout, n), sel(S0.Nout, n))))),
                  node_attrs_same_on(c, S, S0), edge_attrs_same_on(c, S, S0))


def _ref_outer(c, A, K):
    S, S0 = K.S, A.S0
    return [G("struct", ("C02",), DInv(c, S)), G("fresh", ("C02", "C04"), Fresh(c, S)),
            G("frame", ("C05",), z3.And(_only_removed(c, S, S0), S.nk == S0.nk))]


def _ref_tail(c, A, K):
    """inside remove_edges_from: edge e=idx, tail memberships removed for `done`."""
    S, S0 = K.S, A.S0
    e = K.outer.x
    return [G("struct", ("C02",), z3.And(
        tail_way(c, S, e), head_way(c, S), keys_ok(c, S), sel(S.ek, e),
        c.forall(["id"], lambda n: z3.And(sel(S.nk, n), sel(S.Nout, n, e)) == z3.And(sel(S.Ein, e, n), z3.Not(sel(K.done, n)))),
        c.forall(["id"], lambda n: z3.Implies(sel(S.Ein, e, n), sel(S.nk, n))),
        K.content == sel(S.Ein, e), sel(S.Eout, e) == K.L("edge").get("out"))),
        G("fresh", ("C02", "C04"), Fresh(c, S)), G("frame", ("C05",), z3.And(_only_removed(c, S, S0), S.nk == S0.nk))]


def _ref_head(c, A, K):
    S, S0 = K.S, A.S0
    e = K.outer.x
    return [G("struct", ("C02",), z3.And(
        tail_way(c, S, e), head_way(c, S, e), keys_ok(c, S), sel(S.ek, e),
        c.forall(["id"], lambda n: z3.Not(z3.And(sel(S.nk, n), sel(S.Nout, n, e)))),
        c.forall(["id"], lambda n: z3.And(sel(S.nk, n), sel(S.Nin, n, e)) == z3.And(sel(S.Eout, e, n), z3.Not(sel(K.done, n)))),
        c.forall(["id"], lambda n: z3.Implies(sel(S.Eout, e, n), sel(S.nk, n))),
        K.content == sel(S.Eout, e))),
        G("fresh", ("C02", "C04"), Fresh(c, S)), G("frame", ("C05",), z3.And(_only_removed(c, S, S0), S.nk == S0.nk))]


s = std(contract(D + "remove_edges_from", [("self", "net:DH"), ("ebunch", "val")]))
s.loop("for idx in ebunch", _ref_outer)
s.loop("for node in edge['in']", _ref_tail)
s.loop("for node in edge['out']", _ref_head)
s.ens_all("only-removes", ("C05",), lambda c, A, R: z3.And(_only_removed(c, R.S, A.S0), R.S.nk == A.S0.nk))
s.exc("TypeError")
s.exc("IDNotFound")


# ------------------------------------------------------------------ add_node_to_edge / remove_node_from_edge
def _dir_ok(c, d):
    return z3.Or(d == c.strlit("in"), d == c.strlit("out"))


s = std(contract(D + "add_node_to_edge", [("self", "net:DH"), ("edge", "val"), ("node", "val"), ("direction", "val")]))
s.ens_all("other-edges-kept", ("C04",), lambda c, A, R: c.forall(["id"], lambda e: z3.Implies(
    z3.And(sel(A.S0.ek, e), e != A.edge.term), z3.And(sel(R.S.ek, e), sel(R.S.Ein, e) == sel(A.S0.Ein, e), sel(R.S.Eout, e) == sel(A.S0.Eout, e)))))


def _ante_effect(c, A, R):
    S, S0, e, n, d = R.S, A.S0, A.edge.term, A.node.term, A.direction.term
    old = lambda T, keys, k: z3.If(sel(keys, k), sel(T, k), c.EMPTY)
    isin = d == c.strlit("in")
    return z3.And(
        S.ek == c.add(S0.ek, e), S.nk == c.add(S0.nk, n),
        sel(S.Ein, e) == z3.If(isin, c.add(old(S0.Ein, S0.ek, e), n), old(S0.Ein, S0.ek, e)),
        sel(S.Eout, e) == z3.If(isin, old(S0.Eout, S0.ek, e), c.add(old(S0.Eout, S0.ek, e), n)),
        sel(S.Nout, n) == z3.If(isin, c.add(old(S0.Nout, S0.nk, n), e), old(S0.Nout, S0.nk, n)),
        sel(S.Nin, n) == z3.If(isin, old(S0.Nin, S0.nk, n), c.add(old(S0.Nin, S0.nk, n), e)),
        c.forall(["id"], lambda f: z3.Implies(z3.And(sel(S0.ek, f), f != e), z3.And(sel(S.Ein, f) == sel(S0.Ein, f), sel(S.Eout, f) == sel(S0.Eout, f)))),
        c.forall(["id"], lambda m: z3.Implies(z3.And(sel(S0.nk, m), m != n), z3.And(sel(S.Nin, m) == sel(S0.Nin, m), sel(S.Nout, m) == sel(S0.Nout, m)))),
        node_attrs_same_on(c, S, S0), edge_attrs_same_on(c, S, S0))


s.ens("effect", ("C05",), _ante_effect)
s.exc("XGIError")
s.exc("TypeError")


def _rnfe_effect(c, A, R):
    S, S0, e, n, d = R.S, A.S0, A.edge.term, A.node.term, A.direction.term
    isin = d == c.strlit("in")
    nin = z3.If(isin, c.rem(sel(S0.Ein, e), n), sel(S0.Ein, e))
    nout = z3.If(isin, sel(S0.Eout, e), c.rem(sel(S0.Eout, e), n))
    gone = z3.And(A.remove_empty.term, nin == c.EMPTY, nout == c.EMPTY)
    return z3.And(
        S.nk == S0.nk, S.ek == z3.If(gone, c.rem(S0.ek, e), S0.ek), net_same(c, S, S0),
        z3.Implies(z3.Not(gone), z3.And(sel(S.Ein, e) == nin, sel(S.Eout, e) == nout)),
        sel(S.Nout, n) == z3.If(isin, c.rem(sel(S0.Nout, n), e), sel(S0.Nout, n)),
        sel(S.Nin, n) == z3.If(isin, sel(S0.Nin, n), c.rem(sel(S0.Nin, n), e)),
        c.forall(["id"], lambda f: z3.Implies(z3.And(sel(S.ek, f), f != e), z3.And(sel(S.Ein, f) == sel(S0.Ein, f), sel(S.Eout, f) == sel(S0.Eout, f)))),
        c.forall(["id"], lambda m: z3.Implies(z3.And(sel(S.nk, m), m != n), z3.And(sel(S.Nin, m) == sel(S0.Nin, m), sel(S.Nout, m) == sel(S0.Nout, m)))),
        node_attrs_same_on(c, S, S0), edge_attrs_same_on(c, S, S0))


s = std(contract(D + "remove_node_from_edge", [("self", "net:DH"), ("edge", "val"), ("node", "val"), ("direction", "val"), ("remove_empty", "bool", True)]))
s.ens("effect", ("C05",), _rnfe_effect)
s.exc("XGIError", "rejected", ("C05",), lambda c, A, R: same_state(c, A.S0, R.S))
s.exc("TypeError", "unhashable", ("C05",), lambda c, A, R: same_state(c, A.S0, R.S))


# ------------------------------------------------------------------ clear
s = std(contract(D + "clear", [("self", "net:DH"), ("remove_net_attr", "bool", True)]))
s.ens("effect", ("C05",), lambda c, A, R: z3.And(
    R.S.nk == c.EMPTY, R.S.ek == c.EMPTY, R.S.nak == c.EMPTY, R.S.eak == c.EMPTY, R.S.uid == A.S0.uid,
    z3.If(A.remove_net_attr.term, R.S.neth == c.EMPTY, z3.And(R.S.neth == A.S0.neth, R.S.netv == A.S0.netv))))


# ------------------------------------------------------------------ add_edge
def _kept(c, S, S0):
    return z3.And(c.forall(["id"], lambda e: z3.Implies(sel(S0.ek, e), z3.And(sel(S.ek, e), sel(S.Ein, e) == sel(S0.Ein, e), sel(S.Eout, e) == sel(S0.Eout, e)))),
                  edge_attrs_same_on(c, S, S0), c.subset(S0.eak, S.eak))


def _ae_common(c, A, K, u):
    S, S0 = K.S, A.S0
    auto = A.idx.term == c.NONE
    return [
        G("entry", ALL, z3.And(DInv(c, S0), Fresh(c, S0), z3.Not(sel(S0.ek, u)), u != c.NONE,
                               z3.Implies(auto, u == c.of_int(S0.uid)), z3.Implies(z3.Not(auto), u == A.idx.term))),
        G("struct", ("C02",), z3.And(tail_way(c, S), head_way(c, S), S.nk == S.nak, S.eak == S0.eak, S.ek == c.add(S0.ek, u),
                                     z3.Not(sel(S.nk, c.NONE)))),
        G("counter", ("C02", "C04"), S.uid == z3.If(auto, S0.uid + 1, S0.uid)),
        G("kept", ("C04",), _kept(c, S, S0)),
        G("frame", ("C05",), z3.And(c.subset(S0.nk, S.nk), node_attrs_same_on(c, S, S0), S.neth == S0.neth, S.netv == S0.netv,
                                    c.forall(["id"], lambda n: z3.Implies(sel(S0.nk, n), z3.And(
                                        c.subset(sel(S0.Nin, n), sel(S.Nin, n)), c.subset(sel(S0.Nout, n), sel(S.Nout, n))))))),
    ]


def _ae_tail(c, A, K):
    u = K.ex.tid(K.L("uid"))
    S = K.S
    return _ae_common(c, A, K, u) + [G("partial", ALL, z3.And(sel(S.Ein, u) == K.done, sel(S.Eout, u) == c.EMPTY))]


def _ae_head(c, A, K):
    u = K.ex.tid(K.L("uid"))
    S = K.S
    return _ae_common(c, A, K, u) + [G("partial", ALL, z3.And(sel(S.Ein, u) == K.ex.tset(K.L("tail")), sel(S.Eout, u) == K.done))]


s = std(contract(D + "add_edge", [("self", "net:DH"), ("members", "val"), ("idx", "val", None), ("attr", "kwattr")]))
s.loop("for node in tail", _ae_tail)
s.loop("for node in head", _ae_head)
s.ens_all("existing-edges-kept", ("C04",), lambda c, A, R: _kept(c, R.S, A.S0))
s.ens("refuse-existing-id", ("C04",), lambda c, A, R: z3.Implies(sel(A.S0.ek, A.idx.term), z3.And(
    same_tables(c, A.S0, R.S), R.S.warned)))
for e_ in ("TypeError", "XGIError", "IndexError"):
    s.exc(e_)


# ------------------------------------------------------------------ add_edges_from
def _nodes_grow(c, S, S0):
    return z3.And(c.subset(S0.nk, S.nk), node_attrs_same_on(c, S, S0), S.neth == S0.neth, S.netv == S0.netv,
                  c.forall(["id"], lambda n: z3.Implies(sel(S0.nk, n), z3.And(
                      c.subset(sel(S0.Nin, n), sel(S.Nin, n)), c.subset(sel(S0.Nout, n), sel(S.Nout, n))))))


def _aef_outer(c, A, K):
    S, S0 = K.S, A.S0
    return [G("struct", ("C02",), DInv(c, S)), G("fresh", ("C02", "C04"), z3.And(Fresh(c, S), _kept(c, S, S0), S.uid >= S0.uid)),
            G("frame", ("C05",), _nodes_grow(c, S, S0))]


def _aef_partial(c, A, K, phase, attr_set, auto_flags):
    """Edge e = idx stored with full tail/head sets; memberships registered incrementally."""
    S, S0 = K.S, A.S0
    e = K.ex.tid(K.L("idx"))
    Dn = K.done
    if phase == "tail":
        mem = z3.And(c.forall(["id"], lambda n: z3.And(sel(S.nk, n), sel(S.Nout, n, e)) == sel(Dn, n)),
                     c.forall(["id"], lambda n: z3.Not(z3.And(sel(S.nk, n), sel(S.Nin, n, e)))),
                     K.content == sel(S.Ein, e), sel(S.Eout, e) == c.content(K.L("head").term))
    else:
        mem = z3.And(c.forall(["id"], lambda n: z3.And(sel(S.nk, n), sel(S.Nout, n, e)) == sel(S.Ein, e, n)),
                     c.forall(["id"], lambda n: z3.And(sel(S.nk, n), sel(S.Nin, n, e)) == sel(Dn, n)),
                     K.content == sel(S.Eout, e))
    eak = S.eak == S.ek if attr_set else c.forall(["id"], lambda f: sel(S.eak, f) == z3.And(sel(S.ek, f), f != e))
    fresh = c.forall(["id"], lambda f: z3.Implies(z3.And(sel(S.ek, f), f != e, c.intlike(f)), c.int_of(f) < S.uid))
    if auto_flags:
        auto = z3.Or(K.ex.truth(K.L("format1")), K.ex.truth(K.L("format3")))
        fresh = z3.And(fresh, z3.Implies(z3.And(auto, c.intlike(e)), c.int_of(e) < S.uid))
    return [
        G("struct", ("C02",), z3.And(tail_way(c, S, e), head_way(c, S, e), mem, sel(S.ek, e), z3.Not(sel(S0.ek, e)), e != c.NONE,
                                     z3.Not(sel(sel(S.Ein, e), c.NONE)), z3.Not(sel(sel(S.Eout, e), c.NONE)),
                                     S.nk == S.nak, eak, z3.Not(sel(S.nk, c.NONE)), z3.Not(sel(S.ek, c.NONE)))),
        G("fresh", ("C02", "C04"), z3.And(fresh, _kept(c, S, S0), S.uid >= S0.uid)),
        G("frame", ("C05",), _nodes_grow(c, S, S0)),
    ]


s = std(contract(D + "add_edges_from", [("self", "net:DH"), ("ebunch_to_add", "val"), ("attr", "kwattr")]))
s.loop("for idx, members in ebunch_to_add.items()", _aef_outer)
s.loop("for n in tail", lambda c, A, K: _aef_partial(c, A, K, "tail", False, False))
s.loop("for n in head", lambda c, A, K: _aef_partial(c, A, K, "head", True, False))
s.loop("while True", _aef_outer)
s.loop("for node in tail", lambda c, A, K: _aef_partial(c, A, K, "tail", False, True))
s.loop("for node in head", lambda c, A, K: _aef_partial(c, A, K, "head", False, True))
s.ens_all("existing-edges-kept", ("C04",), lambda c, A, R: _kept(c, R.S, A.S0))
s.ens_all("nodes-grow", ("C05",), lambda c, A, R: _nodes_grow(c, R.S, A.S0))
for e_ in ("XGIError", "TypeError", "ValueError", "IndexError", "UnboundLocalError"):
    s.exc(e_)


# ------------------------------------------------------------------ remove_node
def _rn_common(c, S, S0, n):
    return z3.And(DInv(c, S0), Fresh(c, S0), sel(S0.nk, n), S.nk == c.rem(S0.nk, n), S.nak == c.rem(S0.nak, n),
                  net_same(c, S, S0), node_attrs_same_on(c, S, S0), edge_attrs_same_on(c, S, S0), S.eak == S.ek)


def _X(c, S0, n):
    return c.union(sel(S0.Nin, n), sel(S0.Nout, n))


def _rn_strong_outer(c, A, K):
    S, S0, n, Dn = K.S, A.S0, A.n.term, K.done
    return [G("inv", ALL, z3.And(
        _rn_common(c, S, S0, n), K.content == _X(c, S0, n),
        c.forall(["id"], lambda f: sel(S.ek, f) == z3.And(sel(S0.ek, f), z3.Not(sel(Dn, f)))),
        edges_same_on(c, S, S0),
        c.forall(["id"], lambda m: z3.Implies(sel(S.nk, m), z3.And(
            sel(S.Nin, m) == c.diff(sel(S0.Nin, m), Dn), sel(S.Nout, m) == c.diff(sel(S0.Nout, m), Dn))))))]


def _rn_strong_inner(c, A, K, phase):
    S, S0, n, D2 = K.S, A.S0, A.n.term, K.done
    O = K.outer
    Dn, e = O.done, O.x
    out_done = (lambda m: sel(D2, m)) if phase == "tail" else (lambda m: z3.BoolVal(True))
    in_done = (lambda m: z3.BoolVal(False)) if phase == "tail" else (lambda m: sel(D2, m))
    return [G("inv", ALL, z3.And(
        _rn_common(c, S, S0, n), O.content == _X(c, S0, n), c.subset(Dn, O.content), sel(O.content, e), z3.Not(sel(Dn, e)),
        K.content == (sel(S0.Ein, e) if phase == "tail" else sel(S0.Eout, e)),
        c.forall(["id"], lambda f: sel(S.ek, f) == z3.And(sel(S0.ek, f), z3.Not(sel(Dn, f)))),
        edges_same_on(c, S, S0),
        c.forall(["id"], lambda m: z3.Implies(sel(S.nk, m), z3.And(
            sel(S.Nout, m) == z3.If(out_done(m), c.rem(c.diff(sel(S0.Nout, m), Dn), e), c.diff(sel(S0.Nout, m), Dn)),
            sel(S.Nin, m) == z3.If(in_done(m), c.rem(c.diff(sel(S0.Nin, m), Dn), e), c.diff(sel(S0.Nin, m), Dn)))))))]


def _rn_weak(c, A, K, phase):
    S, S0, n, Dn = K.S, A.S0, A.n.term, K.done
    Nin_n, Nout_n = sel(S0.Nin, n), sel(S0.Nout, n)
    if phase == 1:      # for edge in edge_neighbors['in']: head sets lose n
        content = Nin_n
        eout = lambda f: z3.If(sel(Dn, f), c.rem(sel(S0.Eout, f), n), sel(S0.Eout, f))
        ein = lambda f: sel(S0.Ein, f)
        gone = lambda f: z3.BoolVal(False)
    elif phase == 2:    # for edge in edge_neighbors['out']: tail sets lose n
        content = Nout_n
        eout = lambda f: c.rem(sel(S0.Eout, f), n)
        ein = lambda f: z3.If(sel(Dn, f), c.rem(sel(S0.Ein, f), n), sel(S0.Ein, f))
        gone = lambda f: z3.BoolVal(False)
    else:               # cleanup of emptied edges
        content = _X(c, S0, n)
        eout = lambda f: c.rem(sel(S0.Eout, f), n)
        ein = lambda f: c.rem(sel(S0.Ein, f), n)
        gone = lambda f: z3.And(sel(Dn, f), A.remove_empty.term, c.rem(sel(S0.Ein, f), n) == c.EMPTY, c.rem(sel(S0.Eout, f), n) == c.EMPTY)
    return [G("inv", ALL, z3.And(
        _rn_common(c, S, S0, n), K.content == content,
        c.forall(["id"], lambda f: sel(S.ek, f) == z3.And(sel(S0.ek, f), z3.Not(gone(f)))),
        c.forall(["id"], lambda f: z3.Implies(sel(S.ek, f), z3.And(sel(S.Ein, f) == ein(f), sel(S.Eout, f) == eout(f)))),
        nodes_same_on(c, S, S0)))]


def _rn_effect(c, A, R):
    S, S0, n = R.S, A.S0, A.n.term
    X = _X(c, S0, n)
    strong = z3.And(
        c.forall(["id"], lambda f: sel(S.ek, f) == z3.And(sel(S0.ek, f), z3.Not(sel(X, f)))), edges_same_on(c, S, S0),
        c.forall(["id"], lambda m: z3.Implies(sel(S.nk, m), z3.And(
            sel(S.Nin, m) == c.diff(sel(S0.Nin, m), X), sel(S.Nout, m) == c.diff(sel(S0.Nout, m), X)))))
    weak = z3.And(
        c.forall(["id"], lambda f: sel(S.ek, f) == z3.And(sel(S0.ek, f), z3.Not(z3.And(
            A.remove_empty.term, sel(X, f), c.rem(sel(S0.Ein, f), n) == c.EMPTY, c.rem(sel(S0.Eout, f), n) == c.EMPTY)))),
        c.forall(["id"], lambda f: z3.Implies(sel(S.ek, f), z3.And(sel(S.Ein, f) == c.rem(sel(S0.Ein, f), n), sel(S.Eout, f) == c.rem(sel(S0.Eout, f), n)))),
        nodes_same_on(c, S, S0))
    return z3.And(S.nk == c.rem(S0.nk, n), net_same(c, S, S0), node_attrs_same_on(c, S, S0), edge_attrs_same_on(c, S, S0),
                  z3.If(A.strong.term, strong, weak))


s = std(contract(D + "remove_node", [("self", "net:DH"), ("n", "val"), ("strong", "bool", False), ("remove_empty", "bool", True)]))
s.loop("for edge in edge_neighbors['in'].union(edge_neighbors['out'])", _rn_strong_outer)
s.loop("for node in self._edge[edge]['in']", lambda c, A, K: _rn_strong_inner(c, A, K, "tail"))
s.loop("for node in self._edge[edge]['out']", lambda c, A, K: _rn_strong_inner(c, A, K, "head"))
s.loop("for edge in edge_neighbors['in']", lambda c, A, K: _rn_weak(c, A, K, 1))
s.loop("for edge in edge_neighbors['out']", lambda c, A, K: _rn_weak(c, A, K, 2))
s.loop("for edge in edge_neighbors['in'].union(edge_neighbors['out'])", lambda c, A, K: _rn_weak(c, A, K, 3))
s.ens("effect", ("C05",), _rn_effect)
s.exc("IDNotFound", "missing-id", ("C05",), lambda c, A, R: z3.And(z3.Not(sel(A.S0.nk, A.n.term)), same_state(c, A.S0, R.S)))
s.exc("TypeError", "unhashable-id", ("C05",), lambda c, A, R: z3.And(z3.Not(c.hashable(A.n.term)), same_state(c, A.S0, R.S)))


s = std(contract(D + "remove_nodes_from", [("self", "net:DH"), ("nodes", "val"), ("strong", "bool", False), ("remove_empty", "bool", True)]))
s.loop("for n in nodes", lambda c, A, K: [
    G("struct", ("C02",), DInv(c, K.S)), G("fresh", ("C02", "C04"), Fresh(c, K.S)),
    G("frame", ("C05",), z3.And(_only_removed(c, K.S, A.S0), c.forall(["id"], lambda n: z3.Implies(sel(K.done, n), z3.Not(sel(K.S.nk, n))))))])
s.ens_all("only-removes", ("C05",), lambda c, A, R: _only_removed(c, R.S, A.S0))
s.ens("listed-nodes-gone", ("C05",), lambda c, A, R: c.forall(["id"], lambda n: z3.Implies(
    z3.And(sel(c.content(A.nodes.term), n), z3.Not(c.one_shot(A.nodes.term))), z3.Not(sel(R.S.nk, n)))))
s.exc("TypeError")
frozen_exc(s)


# ------------------------------------------------------------------ attribute setters
def _structure_same(c, S, S0):
    return z3.And(S.nk == S0.nk, S.ek == S0.ek, S.nak == S0.nak, S.eak == S0.eak, net_same(c, S, S0),
                  nodes_same_on(c, S, S0), edges_same_on(c, S, S0))


def _sna_inv(c, A, K):
    return [G("inv", ALL, z3.And(DInv(c, A.S0), Fresh(c, A.S0), _structure_same(c, K.S, A.S0), edge_attrs_same_on(c, K.S, A.S0)))]


s = std(contract(D + "set_node_attributes", [("self", "net:DH"), ("values", "val"), ("name", "val", None)]))
s.loop("for n, v in values.items()", setter_loop("node", "dv", _sna_inv))
s.loop("for n in self", setter_loop("node", "const", _sna_inv))
s.loop("for n, d in values.items()", setter_loop("node", "dd", _sna_inv))
s.ens("documented-effect", ("C05",), setter_post("node"))
s.ens_all("structure-unchanged", ("C05",), lambda c, A, R: z3.And(_structure_same(c, R.S, A.S0), edge_attrs_same_on(c, R.S, A.S0)))
s.exc("XGIError")
s.exc("TypeError")


def _sea_inv(c, A, K):
    return [G("inv", ALL, z3.And(DInv(c, A.S0), Fresh(c, A.S0), _structure_same(c, K.S, A.S0), node_attrs_same_on(c, K.S, A.S0)))]


s = std(contract(D + "set_edge_attributes", [("self", "net:DH"), ("values", "val"), ("name", "val", None)]))
s.loop("for e, value in values.items()", setter_loop("edge", "dv", _sea_inv))
s.loop("for e in self._edge", setter_loop("edge", "const", _sea_inv))
s.loop("for e, d in values.items()", setter_loop("edge", "dd", _sea_inv))
s.ens("documented-effect", ("C05",), setter_post("edge"))
s.ens_all("structure-unchanged", ("C05",), lambda c, A, R: z3.And(_structure_same(c, R.S, A.S0), node_attrs_same_on(c, R.S, A.S0)))
s.exc("XGIError")
s.exc("TypeError")
s.exc("ValueError")


# ------------------------------------------------------------------ cleanup / copy-independent helpers
from contracts.freeze import frozen_clauses  # noqa: E402

s = std(contract(D + "cleanup", [("self", "net:DH"), ("isolates", "bool", False), ("relabel", "bool", True), ("in_place", "bool", True)]))
s.req("in-place-no-relabel", lambda c, A: z3.And(A.in_place.term, z3.Not(A.relabel.term)), ("C02",))
s.raises_any = True
s.notes = "in_place=True, relabel=False path (the relabelling helper is verified for undirected hypergraphs only)"
frozen_clauses(s)
