"""Contracts: xgi/core/simplicialcomplex.py.  Properties C03, C04, C05, C18."""
import z3

from pyvc.spec import *
from contracts.common import G

SCQ = "xgi/core/simplicialcomplex.py::SimplicialComplex."
U = "xgi/utils/utilities.py::"
ALL = ("C03", "C04")


def SLite(c, S):
    """SInv without the closure conjunct."""
    return z3.And(UInv(c, S), SNonEmpty(c, S), SDupFree(c, S))


def std(s, closed=True):
    s.req("SLite", lambda c, A: SLite(c, A.S0), ("C03",))
    s.req("Fresh", lambda c, A: Fresh(c, A.S0), ("C03", "C04"))
    if closed:
        s.req("Closed", lambda c, A: SClosed(c, A.S0), ("C03",))
        s.ens_all("Closed", ("C03",), lambda c, A, R: SClosed(c, R.S))
    s.ens_all("SLite", ("C03",), lambda c, A, R: SLite(c, R.S))
    s.ens_all("Fresh", ("C03", "C04"), lambda c, A, R: Fresh(c, R.S))
    return s


def net_same(c, S, S0):
    return z3.And(S.uid == S0.uid, S.neth == S0.neth, S.netv == S0.netv)


def node_attrs_same_on(c, S, S0):
    return c.forall(["id"], lambda n: z3.Implies(z3.And(sel(S0.nak, n), sel(S.nak, n)), z3.And(sel(S.NAh, n) == sel(S0.NAh, n), sel(S.NAv, n) == sel(S0.NAv, n))))


def edge_attrs_same_on(c, S, S0):
    return c.forall(["id"], lambda e: z3.Implies(z3.And(sel(S0.eak, e), sel(S.eak, e)), z3.And(sel(S.EAh, e) == sel(S0.EAh, e), sel(S.EAv, e) == sel(S0.EAv, e))))


def two_way(c, S, skip=None):
    g = (lambda e: e != skip) if skip is not None else (lambda e: z3.BoolVal(True))
    return c.forall(["id", "id"], lambda n, e: z3.Implies(g(e), z3.And(sel(S.nk, n), sel(S.N, n, e)) == z3.And(sel(S.ek, e), sel(S.E, e, n))))


def tuple_face(c, t, M):
    """t is a tuple of hashable members of M (what combinations() over a member collection yields)."""
    return z3.And(c.is_tuple(t), c.hashable(t), c.iterable(t), z3.Not(c.one_shot(t)), c.elems_hashable(t), c.subset(c.content(t), M))


def faces_closed(c, F):
    return c.forall(["id", "set"], lambda t, T: z3.Implies(
        z3.And(sel(F, t), c.subset(T, c.content(t)), c.card(T) >= 2),
        c.exists(["id"], lambda u: z3.And(sel(F, u), c.content(u) == T))))



# ------------------------------------------------------------------ assumed: itertools.combinations via _subfaces / powerset
def _subfaces_post(c, A, R):
    M = A.simplex.get() if hasattr(A.simplex, "get") else c.content(A.simplex.term)
    r = R.result.term
    F = c.content(r)
    return z3.And(
        c.is_list(r), c.iterable(r), z3.Not(c.one_shot(r)), c.elems_hashable(r),
        c.forall(["id"], lambda t: z3.Implies(sel(F, t), z3.And(tuple_face(c, t, M), c.card(c.content(t)) <= c.card(M)))),
        z3.Implies(A.all.term, z3.And(
            c.forall(["id"], lambda t: z3.Implies(sel(F, t), c.content(t) != M)),
            c.forall(["set"], lambda T: z3.Implies(
                z3.And(c.subset(T, M), c.card(T) >= 2, T != M),
                c.exists(["id"], lambda t: z3.And(sel(F, t), c.content(t) == T)))),
            faces_closed(c, F))))


s = contract(SCQ + "_subfaces", [("self", "net:SC"), ("simplex", "fset"), ("all", "bool", True)])
s.assumed = True
s.notes = "assumed from the contract of itertools.combinations: every k-subset of a collection appears as a k-tuple of its elements"
s.modifies = []
s.result = "val"
s.ens("faces", ("C03",), _subfaces_post)


def _powerset_post(c, A, R):
    M = c.content(A.iterable.term)
    r = R.result.term
    F = c.content(r)
    ms = A.max_size.term
    return z3.And(
        c.iterable(r), c.elems_hashable(r),
        c.forall(["id"], lambda t: z3.Implies(sel(F, t), z3.And(tuple_face(c, t, M), c.card(c.content(t)) <= ms))),
        z3.Implies(z3.And(z3.Not(A.include_singletons.term), z3.Not(A.include_empty.term), ms < c.len_of(A.iterable.term)),
                   z3.And(c.forall(["set"], lambda T: z3.Implies(
                       z3.And(c.subset(T, M), c.card(T) >= 2, c.card(T) <= ms),
                       c.exists(["id"], lambda t: z3.And(sel(F, t), c.content(t) == T)))),
                       faces_closed(c, F))))


s = contract(U + "powerset", [("iterable", "val"), ("include_empty", "bool", False), ("include_full", "bool", False),
                              ("include_singletons", "bool", True), ("max_size", "int", None)])
s.assumed = True
s.notes = "assumed from itertools.combinations / chain.from_iterable; only the max_size-given case is specified"
s.modifies = []
s.result = "val"
s.ens("subsets", ("C03",), _powerset_post)


# ------------------------------------------------------------------ has_simplex
s = contract(SCQ + "has_simplex", [("self", "net:SC"), ("simplex", "val")])
s.modifies = []
s.result = "bool"
s.ens("answers-membership", ("C03",), lambda c, A, R: R.result.term == has_simplex(c, A.S0, c.content(A.simplex.term)))
s.ens_all("state-unchanged", ("C03", "C08"), lambda c, A, R: same_state(c, A.S0, R.S))
s.exc("TypeError", "only-bad-argument", ("C05",), lambda c, A, R: z3.Or(z3.Not(c.iterable(A.simplex.term)), z3.Not(c.elems_hashable(A.simplex.term))))


# ------------------------------------------------------------------ _add_face
def _face_frame(c, S, S0, f, M):
    """Exactly one new simplex f with member set M; nothing else changes."""
    return z3.And(
        S.ek == c.add(S0.ek, f), S.eak == c.add(S0.eak, f), sel(S.E, f) == M,
        c.forall(["id"], lambda e: z3.Implies(sel(S0.ek, e), sel(S.E, e) == sel(S0.E, e))),
        S.nk == c.union(S0.nk, M), S.nak == S.nk,
        c.forall(["id"], lambda n: z3.Implies(sel(S.nk, n), sel(S.N, n) == z3.If(
            sel(S0.nk, n), z3.If(sel(M, n), c.add(sel(S0.N, n), f), sel(S0.N, n)), c.single(f)))),
        node_attrs_same_on(c, S, S0), edge_attrs_same_on(c, S, S0), S.neth == S0.neth, S.netv == S0.netv)


def _af_pre(c, A):
    t = A.members.term
    M = c.content(t)
    return z3.And(c.iterable(t), z3.Not(c.one_shot(t)), c.elems_hashable(t), M != c.EMPTY, z3.Not(sel(M, c.NONE)),
                  z3.Not(has_simplex(c, A.S0, M)))


def _af_loop(c, A, K):
    S, S0 = K.S, A.S0
    f = c.of_int(S0.uid)
    M = c.content(A.members.term)
    D = K.done
    return [G("inv", ALL, z3.And(
        SLite(c, S0), Fresh(c, S0), _af_pre(c, A), K.content == M,
        two_way(c, S, f), S.nk == S.nak, z3.Not(sel(S.nk, c.NONE)), z3.Not(sel(S.ek, c.NONE)),
        c.forall(["id"], lambda n: z3.And(sel(S.nk, n), sel(S.N, n, f)) == sel(D, n)),
        S.ek == c.add(S0.ek, f), S.eak == S0.eak, sel(S.E, f) == M, S.uid == S0.uid + 1,
        c.forall(["id"], lambda e: z3.Implies(sel(S0.ek, e), sel(S.E, e) == sel(S0.E, e))),
        S.nk == c.union(S0.nk, D),
        c.forall(["id"], lambda n: z3.Implies(sel(S.nk, n), sel(S.N, n) == z3.If(
            sel(S0.nk, n), z3.If(sel(D, n), c.add(sel(S0.N, n), f), sel(S0.N, n)), c.single(f)))),
        node_attrs_same_on(c, S, S0), edge_attrs_same_on(c, S, S0), S.neth == S0.neth, S.netv == S0.netv))]


s = contract(SCQ + "_add_face", [("self", "net:SC"), ("members", "val")])
s.req("SLite", lambda c, A: SLite(c, A.S0), ("C03",))
s.req("Fresh", lambda c, A: Fresh(c, A.S0), ("C03", "C04"))
s.req("face-ok", _af_pre, ("C03",))
s.loop("for n in members", _af_loop)
s.ens("SLite", ("C03",), lambda c, A, R: SLite(c, R.S))
s.ens("Fresh", ("C03", "C04"), lambda c, A, R: Fresh(c, R.S))
s.ens("effect", ("C03", "C04"), lambda c, A, R: z3.And(
    _face_frame(c, R.S, A.S0, c.of_int(A.S0.uid), c.content(A.members.term)), R.S.uid == A.S0.uid + 1))


# ------------------------------------------------------------------ _add_simplex
def _as_pre(c, A):
    M, i = A.members.get(), A.idx.term
    return z3.And(M != c.EMPTY, z3.Not(sel(M, c.NONE)), z3.Not(has_simplex(c, A.S0, M)), z3.Not(sel(A.S0.ek, i)),
                  c.hashable(i), c.forall(["id"], lambda n: z3.Implies(sel(M, n), c.hashable(n))))


def _as_loop(c, A, K):
    S, S0 = K.S, A.S0
    f, M, D = A.idx.term, A.members.get(), K.done
    return [G("inv", ALL, z3.And(
        SLite(c, S0), _as_pre(c, A), K.content == M, f != c.NONE,
        two_way(c, S, f), S.nk == S.nak, z3.Not(sel(S.nk, c.NONE)), z3.Not(sel(S.ek, c.NONE)),
        c.forall(["id"], lambda n: z3.And(sel(S.nk, n), sel(S.N, n, f)) == sel(D, n)),
        S.ek == c.add(S0.ek, f), S.eak == S0.eak, sel(S.E, f) == c.EMPTY, S.uid == S0.uid,
        c.forall(["id"], lambda e: z3.Implies(sel(S0.ek, e), sel(S.E, e) == sel(S0.E, e))),
        S.nk == c.union(S0.nk, D),
        c.forall(["id"], lambda n: z3.Implies(sel(S.nk, n), sel(S.N, n) == z3.If(
            sel(S0.nk, n), z3.If(sel(D, n), c.add(sel(S0.N, n), f), sel(S0.N, n)), c.single(f)))),
        node_attrs_same_on(c, S, S0), edge_attrs_same_on(c, S, S0), S.neth == S0.neth, S.netv == S0.netv))]


s = contract(SCQ + "_add_simplex", [("self", "net:SC"), ("members", "fset"), ("idx", "val", None), ("attr", "kwattr")])
s.req("SLite", lambda c, A: SLite(c, A.S0), ("C03",))
s.req("simplex-ok", _as_pre, ("C03",))
s.loop("for node in members", _as_loop)
s.ens("SLite", ("C03",), lambda c, A, R: SLite(c, R.S))
s.ens("effect", ("C03", "C04"), lambda c, A, R: z3.And(_face_frame(c, R.S, A.S0, A.idx.term, A.members.get()), R.S.uid == A.S0.uid))
s.exc("XGIError", "none-id", ("C03", "C05"), lambda c, A, R: z3.And(A.idx.term == c.NONE, same_state(c, A.S0, R.S)))


# ------------------------------------------------------------------ add_simplex
def closed_upto(c, S, pending):
    """Downward closed except for the subsets carried by the pending face tuples."""
    return c.forall(["id", "set"], lambda e, T: z3.Implies(
        z3.And(sel(S.ek, e), c.subset(T, sel(S.E, e)), c.card(T) >= 2),
        z3.Or(has_simplex(c, S, T), c.exists(["id"], lambda t: z3.And(sel(pending, t), c.content(t) == T)))))


def only_added(c, S, S0):
    """Existing simplices and nodes are kept unchanged (C04: adding never alters, replaces or removes)."""
    return z3.And(c.forall(["id"], lambda e: z3.Implies(sel(S0.ek, e), z3.And(sel(S.ek, e), sel(S.E, e) == sel(S0.E, e)))),
                  c.subset(S0.nk, S.nk), edge_attrs_same_on(c, S, S0), node_attrs_same_on(c, S, S0),
                  c.subset(S0.eak, S.eak), S.uid >= S0.uid, S.neth == S0.neth, S.netv == S0.netv)


def _asx_loop(c, A, K):
    S, S0 = K.S, A.S0
    M = K.ex.tset(K.L("members"))
    Fc = K.content
    pending = c.diff(Fc, K.done)
    return [
        G("lite", ("C03",), SLite(c, S)),
        G("fresh", ("C03", "C04"), z3.And(Fresh(c, S), only_added(c, S, S0))),
        G("faces", ("C03",), z3.And(
            z3.Not(sel(M, c.NONE)), has_simplex(c, S, M),
            c.forall(["id"], lambda t: z3.Implies(sel(Fc, t), tuple_face(c, t, M))),
            c.forall(["set"], lambda T: z3.Implies(z3.And(c.subset(T, M), c.card(T) >= 2, T != M),
                                                    c.exists(["id"], lambda t: z3.And(sel(Fc, t), c.content(t) == T)))),
            c.forall(["id"], lambda t: z3.Implies(z3.And(sel(K.done, t), c.content(t) != c.EMPTY), has_simplex(c, S, c.content(t)))))),
        G("closed", ("C03",), closed_upto(c, S, pending)),
    ]


s = std(contract(SCQ + "add_simplex", [("self", "net:SC"), ("members", "val"), ("idx", "val", None), ("attr", "kwattr")]))
s.loop("for members_sub in faces", _asx_loop)
s.ens_all("existing-kept", ("C04",), lambda c, A, R: only_added(c, R.S, A.S0))
s.ens("simplex-present", ("C03", "C05"), lambda c, A, R: z3.Implies(
    z3.And(c.content(A.members.term) != c.EMPTY, z3.Not(sel(A.S0.ek, A.idx.term))), has_simplex(c, R.S, c.content(A.members.term))))
s.exc("XGIError")
s.exc("TypeError")


# ------------------------------------------------------------------ removal
def only_removed(c, S, S0):
    return z3.And(c.subset(S.ek, S0.ek), c.subset(S.nk, S0.nk), net_same(c, S, S0),
                  c.forall(["id"], lambda e: z3.Implies(sel(S.ek, e), sel(S.E, e) == sel(S0.E, e))),
                  c.forall(["id"], lambda n: z3.Implies(sel(S.nk, n), c.subset(sel(S.N, n), sel(S0.N, n)))),
                  node_attrs_same_on(c, S, S0), edge_attrs_same_on(c, S, S0))


def _rsi_frame(c, S, S0, gone):
    """Exactly the simplices in `gone` are removed; everything else is unchanged."""
    return z3.And(
        c.forall(["id"], lambda e: sel(S.ek, e) == z3.And(sel(S0.ek, e), z3.Not(sel(gone, e)))), S.eak == S.ek,
        c.forall(["id"], lambda e: z3.Implies(sel(S.ek, e), sel(S.E, e) == sel(S0.E, e))),
        S.nk == S0.nk, S.nak == S0.nak,
        c.forall(["id"], lambda n: z3.Implies(sel(S.nk, n), sel(S.N, n) == c.diff(sel(S0.N, n), gone))),
        net_same(c, S, S0), node_attrs_same_on(c, S, S0), edge_attrs_same_on(c, S, S0))


def _rsid_loop(c, A, K):
    S, S0, e = K.S, A.S0, A.idx.term
    return [G("inv", ALL, z3.And(
        SLite(c, S0), Fresh(c, S0), sel(S0.ek, e), K.content == sel(S0.E, e),
        S.nk == S0.nk, S.ek == S0.ek, S.nak == S0.nak, S.eak == S0.eak, net_same(c, S, S0),
        node_attrs_same_on(c, S, S0), edge_attrs_same_on(c, S, S0),
        c.forall(["id"], lambda f: z3.Implies(sel(S0.ek, f), sel(S.E, f) == sel(S0.E, f))),
        c.forall(["id"], lambda n: z3.Implies(sel(S0.nk, n), sel(S.N, n) == z3.If(sel(K.done, n), c.rem(sel(S0.N, n), e), sel(S0.N, n))))))]


s = contract(SCQ + "_remove_simplex_id", [("self", "net:SC"), ("idx", "val")])
s.req("SLite", lambda c, A: SLite(c, A.S0), ("C03",))
s.req("Fresh", lambda c, A: Fresh(c, A.S0), ("C03", "C04"))
s.req("present", lambda c, A: z3.And(sel(A.S0.ek, A.idx.term), c.hashable(A.idx.term)), ("C03",))
s.loop("for node in self.edges.members(idx)", _rsid_loop)
s.ens("SLite", ("C03",), lambda c, A, R: SLite(c, R.S))
s.ens("Fresh", ("C03", "C04"), lambda c, A, R: Fresh(c, R.S))
s.ens("effect", ("C03", "C05"), lambda c, A, R: _rsi_frame(c, R.S, A.S0, c.single(A.idx.term)))


def _sup(c, S0, X):
    return c.setof(lambda j: z3.And(sel(S0.ek, j), c.subset(X, sel(S0.E, j)), X != sel(S0.E, j)))


s = contract(SCQ + "_supfaces_id", [("self", "net:SC"), ("simplex", "fset")])
s.modifies = []
s.result = "list"
s.ens("supersets", ("C03",), lambda c, A, R: R.result.content == _sup(c, A.S0, A.simplex.get()))
s.ens_all("state-unchanged", ("C03", "C08"), lambda c, A, R: same_state(c, A.S0, R.S))


def closed_except_supersets(c, S, X):
    return c.forall(["id", "set"], lambda e, T: z3.Implies(
        z3.And(sel(S.ek, e), c.subset(T, sel(S.E, e)), c.card(T) >= 2), z3.Or(has_simplex(c, S, T), c.subset(X, T))))


def _rs_loop(c, A, K):
    S, S0, e = K.S, A.S0, A.idx.term
    X = sel(S0.E, e)
    return [
        G("entry", ALL, z3.And(SLite(c, S0), SClosed(c, S0), Fresh(c, S0), sel(S0.ek, e), K.content == _sup(c, S0, X))),
        G("frame", ("C03", "C05"), _rsi_frame(c, S, S0, K.done)),
        G("lite", ("C03",), SLite(c, S)), G("fresh", ("C03", "C04"), Fresh(c, S)),
        G("closed", ("C03",), closed_except_supersets(c, S, X)),
    ]


s = std(contract(SCQ + "remove_simplex_id", [("self", "net:SC"), ("idx", "val")]))
s.loop("for sup_id in supfaces_ids", _rs_loop)
s.ens("effect", ("C03", "C05"), lambda c, A, R: _rsi_frame(c, R.S, A.S0, c.add(_sup(c, A.S0, sel(A.S0.E, A.idx.term)), A.idx.term)))
s.exc("XGIError", "missing-id", ("C03", "C05"), lambda c, A, R: z3.And(z3.Not(sel(A.S0.ek, A.idx.term)), same_state(c, A.S0, R.S)))
s.exc("TypeError", "unhashable-id", ("C05",), lambda c, A, R: z3.And(z3.Not(c.hashable(A.idx.term)), same_state(c, A.S0, R.S)))


s = std(contract(SCQ + "remove_simplex_ids_from", [("self", "net:SC"), ("ebunch", "val")]))
s.loop("for idx in ebunch", lambda c, A, K: [
    G("lite", ("C03",), SLite(c, K.S)), G("closed", ("C03",), SClosed(c, K.S)), G("fresh", ("C03", "C04"), Fresh(c, K.S)),
    G("frame", ("C05",), only_removed(c, K.S, A.S0)), G("frozen", ("C18",), z3.Implies(A.S0.frozen, same_tables(c, A.S0, K.S)))])
s.ens_all("only-removes", ("C05",), lambda c, A, R: only_removed(c, R.S, A.S0))
s.ens_all("frozen-unchanged", ("C18",), lambda c, A, R: z3.Implies(A.S0.frozen, same_tables(c, A.S0, R.S)))
s.exc("XGIError")
s.exc("TypeError")


# ------------------------------------------------------------------ remove_node (always strong for a complex)
def closed_except_node(c, S, n):
    return c.forall(["id", "set"], lambda e, T: z3.Implies(
        z3.And(sel(S.ek, e), c.subset(T, sel(S.E, e)), c.card(T) >= 2), z3.Or(has_simplex(c, S, T), sel(T, n))))


def _rn_common(c, S, S0, n):
    return z3.And(SLite(c, S0), SClosed(c, S0), Fresh(c, S0), sel(S0.nk, n), S.nk == c.rem(S0.nk, n), S.nak == c.rem(S0.nak, n),
                  net_same(c, S, S0), node_attrs_same_on(c, S, S0), edge_attrs_same_on(c, S, S0))


def _rn_outer(c, A, K):
    S, S0, n, D = K.S, A.S0, A.n.term, K.done
    return [G("inv", ALL, z3.And(
        _rn_common(c, S, S0, n), K.content == sel(S0.N, n),
        c.forall(["id"], lambda f: sel(S.ek, f) == z3.And(sel(S0.ek, f), z3.Not(sel(D, f)))), S.eak == S.ek,
        c.forall(["id"], lambda f: z3.Implies(sel(S.ek, f), sel(S.E, f) == sel(S0.E, f))),
        c.forall(["id"], lambda m: z3.Implies(sel(S.nk, m), sel(S.N, m) == c.diff(sel(S0.N, m), D)))))]


def _rn_inner(c, A, K):
    S, S0, n, D2 = K.S, A.S0, A.n.term, K.done
    O = K.outer
    D, e = O.done, O.x
    return [G("inv", ALL, z3.And(
        _rn_common(c, S, S0, n), O.content == sel(S0.N, n), c.subset(D, O.content), sel(O.content, e), z3.Not(sel(D, e)),
        K.content == c.diff(sel(S0.E, e), c.single(n)),
        c.forall(["id"], lambda f: sel(S.ek, f) == z3.And(sel(S0.ek, f), z3.Not(sel(D, f)), f != e)), S.eak == S.ek,
        c.forall(["id"], lambda f: z3.Implies(sel(S.ek, f), sel(S.E, f) == sel(S0.E, f))),
        c.forall(["id"], lambda m: z3.Implies(sel(S.nk, m), sel(S.N, m) == z3.If(
            sel(D2, m), c.rem(c.diff(sel(S0.N, m), D), e), c.diff(sel(S0.N, m), D))))))]


s = std(contract(SCQ + "remove_node", [("self", "net:SC"), ("n", "val")]))
s.loop("for e in edge_neighbors", _rn_outer)
s.loop("for node in node_neighbors.difference({n})", _rn_inner)
s.ens("effect", ("C03", "C05"), lambda c, A, R: z3.And(
    R.S.nk == c.rem(A.S0.nk, A.n.term),
    c.forall(["id"], lambda f: sel(R.S.ek, f) == z3.And(sel(A.S0.ek, f), z3.Not(sel(sel(A.S0.N, A.n.term), f)))),
    c.forall(["id"], lambda f: z3.Implies(sel(R.S.ek, f), sel(R.S.E, f) == sel(A.S0.E, f))),
    c.forall(["id"], lambda m: z3.Implies(sel(R.S.nk, m), sel(R.S.N, m) == c.diff(sel(A.S0.N, m), sel(A.S0.N, A.n.term)))),
    net_same(c, R.S, A.S0), node_attrs_same_on(c, R.S, A.S0), edge_attrs_same_on(c, R.S, A.S0)))
s.exc("IDNotFound", "missing-id", ("C05",), lambda c, A, R: z3.And(z3.Not(sel(A.S0.nk, A.n.term)), same_state(c, A.S0, R.S)))
s.exc("TypeError", "unhashable-id", ("C05",), lambda c, A, R: z3.And(z3.Not(c.hashable(A.n.term)), same_state(c, A.S0, R.S)))


s = std(contract(SCQ + "remove_nodes_from", [("self", "net:SC"), ("nodes", "val")]))
s.loop("for n in nodes", lambda c, A, K: [
    G("lite", ("C03",), SLite(c, K.S)), G("closed", ("C03",), SClosed(c, K.S)), G("fresh", ("C03", "C04"), Fresh(c, K.S)),
    G("frame", ("C05",), only_removed(c, K.S, A.S0))])
s.ens_all("only-removes", ("C05",), lambda c, A, R: only_removed(c, R.S, A.S0))
s.exc("TypeError")
s.exc("XGIError", "only-when-frozen", ("C18",), lambda c, A, R: A.S0.shadow.any())


# ------------------------------------------------------------------ deprecated aliases
for nm, params in [("remove_edge", [("self", "net:SC"), ("idx", "val")]), ("remove_edges_from", [("self", "net:SC"), ("ebunch", "val")]),
                   ("add_edge", [("self", "net:SC"), ("edge", "val"), ("idx", "val", None), ("attr", "kwattr")])]:
    s = std(contract(SCQ + nm, params))
    for e_ in ("XGIError", "TypeError", "IDNotFound"):
        s.exc(e_)
    s.ens_all("frozen-unchanged", ("C18",), lambda c, A, R: z3.Implies(A.S0.frozen, same_tables(c, A.S0, R.S)))

s = contract(SCQ + "add_node_to_edge", [("self", "net:SC"), ("edge", "val"), ("node", "val")])
s.exc("XGIError", "always", ("C03", "C05"), lambda c, A, R: same_state(c, A.S0, R.S))
s.ens("never-returns", ("C03", "C05"), lambda c, A, R: z3.BoolVal(False))


# ------------------------------------------------------------------ add_simplices_from
def closed_upto_skip(c, S, pending, skip):
    return c.forall(["id", "set"], lambda e, T: z3.Implies(
        z3.And(sel(S.ek, e), e != skip, c.subset(T, sel(S.E, e)), c.card(T) >= 2),
        z3.Or(has_simplex(c, S, T), c.exists(["id"], lambda t: z3.And(sel(pending, t), c.content(t) == T)))))


def faces_ok(c, F, mo):
    """Every pending face is a tuple of hashable non-None ids, within max_order when one is given."""
    return c.forall(["id"], lambda t: z3.Implies(sel(F, t), z3.And(
        c.is_tuple(t), c.hashable(t), c.iterable(t), z3.Not(c.one_shot(t)), c.elems_hashable(t),
        z3.Not(sel(c.content(t), c.NONE)),
        z3.Implies(mo != c.NONE, c.card(c.content(t)) <= c.int_of(mo) + 1))))


def within_max_order(c, S, S0, mo):
    return z3.Implies(z3.And(mo != c.NONE, c.intlike(mo)), c.forall(["id"], lambda e: z3.Implies(
        z3.And(sel(S.ek, e), z3.Not(sel(S0.ek, e))), c.card(sel(S.E, e)) <= c.int_of(mo) + 1)))


def _asf_outer(c, A, K):
    S, S0 = K.S, A.S0
    F = K.L("faces").content if getattr(K.L("faces"), "content", None) is not None else c.EMPTY
    mo = A.max_order.term
    return [
        G("lite", ("C03",), SLite(c, S)),
        G("fresh", ("C03", "C04"), z3.And(Fresh(c, S), only_added(c, S, S0))),
        G("pending", ("C03",), z3.And(faces_ok(c, F, mo), faces_closed(c, F))),
        G("closed", ("C03",), closed_upto(c, S, F)),
        G("max-order", ("C03",), within_max_order(c, S, S0, mo)),
    ]


def _asf_inner(c, A, K):
    """formats 1-4: simplex e = idx is stored with its member set; memberships registered for `done`."""
    S, S0 = K.S, A.S0
    e = K.ex.tid(K.L("idx"))
    F = K.L("faces").content if getattr(K.L("faces"), "content", None) is not None else c.EMPTY
    mo = A.max_order.term
    D = K.done
    auto = z3.Or(K.ex.truth(K.L("format1")), K.ex.truth(K.L("format3")))
    return [
        G("lite", ("C03",), z3.And(
            two_way(c, S, e), c.forall(["id"], lambda n: z3.And(sel(S.nk, n), sel(S.N, n, e)) == sel(D, n)),
            K.content == sel(S.E, e), sel(S.ek, e), z3.Not(sel(S.eak, e)), z3.Not(sel(S0.ek, e)), e != c.NONE,
            z3.Not(sel(sel(S.E, e), c.NONE)), sel(S.E, e) != c.EMPTY,
            S.nk == S.nak, c.forall(["id"], lambda f: sel(S.eak, f) == z3.And(sel(S.ek, f), f != e)),
            z3.Not(sel(S.nk, c.NONE)), z3.Not(sel(S.ek, c.NONE)), SNonEmpty(c, S), SDupFree(c, S))),
        G("fresh", ("C03", "C04"), z3.And(
            c.forall(["id"], lambda f: z3.Implies(z3.And(sel(S.ek, f), f != e, c.intlike(f)), c.int_of(f) < S.uid)),
            z3.Implies(z3.And(auto, c.intlike(e)), c.int_of(e) < S.uid), only_added(c, S, S0))),
        G("pending", ("C03",), z3.And(faces_ok(c, F, mo), faces_closed(c, F))),
    ] + _mono_hints(c, K, K.outer.S if K.outer is not None else None, e) + [
        G("closed", ("C03",), closed_upto_skip(c, S, F, e)),
        G("max-order", ("C03",), within_max_order(c, S, S0, mo)),
    ]


def _mono_hints(c, K, Sh, e):
    """Lemma for the entry obligation: every simplex of the enclosing loop's head state is still
    present with the same members (only simplex e was stored since)."""
    if getattr(K, "phase", None) != "entry" or Sh is None:
        return []
    S = K.S
    return [G("hint:kept", ("C03",), z3.And(
        c.forall(["id"], lambda f: z3.Implies(sel(Sh.ek, f), z3.And(sel(S.ek, f), sel(S.E, f) == sel(Sh.E, f), f != e))),
        c.forall(["id"], lambda f: z3.Implies(z3.And(sel(S.ek, f), f != e), sel(Sh.ek, f))))),
        G("hint:has-monotone", ("C03",), c.forall(["set"], lambda T: z3.Implies(has_simplex(c, Sh, T), has_simplex(c, S, T))))]


def _asf_faces(c, A, K):
    S, S0 = K.S, A.S0
    Fc = K.content
    mo = A.max_order.term
    pending = c.diff(Fc, K.done)
    return [
        G("lite", ("C03",), SLite(c, S)),
        G("fresh", ("C03", "C04"), z3.And(Fresh(c, S), only_added(c, S, S0))),
        G("pending", ("C03",), z3.And(
            faces_ok(c, Fc, mo), faces_closed(c, Fc),
            c.forall(["id"], lambda t: z3.Implies(z3.And(sel(K.done, t), c.content(t) != c.EMPTY), has_simplex(c, S, c.content(t)))))),
        G("closed", ("C03",), closed_upto(c, S, pending)),
        G("max-order", ("C03",), within_max_order(c, S, S0, mo)),
    ]


# C03 (unlike C01/C02) does not speak about calls that raise.  A bulk call that raises half-way has
# inserted some simplices whose faces are still pending (faces are inserted after the main loop),
# so closure is required at the normal exits only; SLite + Fresh + existing-kept hold on every exit.
s = std(contract(SCQ + "add_simplices_from", [("self", "net:SC"), ("ebunch_to_add", "val"), ("max_order", "val", None), ("attr", "kwattr")]), closed=False)
s.req("Closed", lambda c, A: SClosed(c, A.S0), ("C03",))
s.ens("Closed", ("C03",), lambda c, A, R: SClosed(c, R.S))
s.req("max_order-int-or-none", lambda c, A: z3.Or(A.max_order.term == c.NONE, c.is_int(A.max_order.term)), ("C03",))
s.timeout_ms = 40000  # closure obligations with set-valued quantifiers
s.len_axioms = True  # card(content(x)) <= len(x) is instantiated where len() is taken (max_order bound)
s.skip_ground_quick = True  # a 4-id universe cannot hold a simplex, its faces and their tuple ids: the ground pass is vacuous here
s.loop("for idx, members in ebunch_to_add.items()", _asf_outer)
s.loop("for members in faces", _asf_faces, forget=True)
s.loop("while True", _asf_outer)
s.loop("for n in members", _asf_inner)
s.loop("for members in faces", _asf_faces, forget=True)
s.ens_all("existing-kept", ("C04",), lambda c, A, R: only_added(c, R.S, A.S0))
s.ens("max-order", ("C03",), lambda c, A, R: within_max_order(c, R.S, A.S0, A.max_order.term))
for e_ in ("XGIError", "TypeError", "ValueError", "IndexError", "UnboundLocalError"):
    s.exc(e_)


# ------------------------------------------------------------------ remaining public mutators of a complex (composition of the contracts above)
from contracts.freeze import frozen_clauses  # noqa: E402

s = std(contract(SCQ + "close", [("self", "net:SC")]), closed=False)
s.req("Closed", lambda c, A: SClosed(c, A.S0), ("C03",))
s.ens("Closed", ("C03",), lambda c, A, R: SClosed(c, R.S))
def _close_loop(c, A, K):
    from contracts.freeze import IsFrozen
    return [G("lite", ("C03",), SLite(c, K.S)), G("closed", ("C03",), SClosed(c, K.S)),
            G("fresh", ("C03", "C04"), z3.And(Fresh(c, K.S), only_added(c, K.S, A.S0))),
            G("frozen", ("C18",), z3.Implies(IsFrozen(c, A.S0), same_tables(c, A.S0, K.S)))]


s.loop("for simplex in ebunch_to_close", _close_loop)
s.ens_all("existing-kept", ("C04",), lambda c, A, R: only_added(c, R.S, A.S0))
s.raises_any = True
frozen_clauses(s)

s = std(contract(SCQ + "add_weighted_simplices_from", [("self", "net:SC"), ("ebunch_to_add", "val"), ("max_order", "val", None), ("weight", "val", "weight"), ("attr", "kwattr")]), closed=False)
s.req("Closed", lambda c, A: SClosed(c, A.S0), ("C03",))
s.req("max_order-int-or-none", lambda c, A: z3.Or(A.max_order.term == c.NONE, c.is_int(A.max_order.term)), ("C03",))
s.ens("Closed", ("C03",), lambda c, A, R: SClosed(c, R.S))
s.ens_all("existing-kept", ("C04",), lambda c, A, R: only_added(c, R.S, A.S0))
s.raises_any = True
frozen_clauses(s)

for nm, params in [("add_edges_from", [("self", "net:SC"), ("ebunch_to_add", "val"), ("max_order", "val", None), ("attr", "kwattr")]),
                   ("add_weighted_edges_from", [("self", "net:SC"), ("ebunch_to_add", "val"), ("max_order", "val", None), ("weight", "val", "weight"), ("attr", "kwattr")])]:
    s = std(contract(SCQ + nm, params), closed=False)
    s.req("Closed", lambda c, A: SClosed(c, A.S0), ("C03",))
    s.req("max_order-int-or-none", lambda c, A: z3.Or(A.max_order.term == c.NONE, c.is_int(A.max_order.term)), ("C03",))
    s.ens("Closed", ("C03",), lambda c, A, R: SClosed(c, R.S))
    s.ens_all("existing-kept", ("C04",), lambda c, A, R: only_added(c, R.S, A.S0))
    s.raises_any = True
    frozen_clauses(s)

s = std(contract(SCQ + "cleanup", [("self", "net:SC"), ("isolates", "bool", False), ("connected", "bool", True), ("relabel", "bool", True), ("in_place", "bool", True)]), closed=False)
s.req("in-place-no-relabel-no-component", lambda c, A: z3.And(A.in_place.term, z3.Not(A.relabel.term), z3.Not(A.connected.term)), ("C03",))
s.req("Closed", lambda c, A: SClosed(c, A.S0), ("C03",))
s.ens("Closed", ("C03",), lambda c, A, R: SClosed(c, R.S))
s.raises_any = True
s.notes = "only the isolates step is covered (in_place=True, connected=False, relabel=False); the component / relabelling steps on a complex are bounded"
frozen_clauses(s)
