"""Sidecar contracts for functions of /repo (never a copy of the code: pre/post/invariants only)."""
import importlib

MODULES = ["core_hypergraph", "core_dihypergraph", "utils", "core_simplicial", "freeze", "stats", "algorithms", "derived", "convert", "generators", "views"]


def load_all():
    for m in MODULES:
        importlib.import_module("contracts." + m)
