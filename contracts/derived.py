"""Contracts: derived networks (C19) and their frozen state (C18)."""
import z3

from pyvc.spec import *

GV = "xgi/core/globalviews.py::"


def rsnap(x):
    """Snapshot of a result that is a network (symbolic VNet, or already a snapshot in replay)."""
    return x if isinstance(x, Snap) else Snap(x)


s = contract(GV + "subhypergraph", [("H", "net:H"), ("nodes", "val", None), ("edges", "val", None), ("keep_isolates", "bool", True)])
s.variants = [{"H": "net:H"}, {"H": "net:DH"}]
s.modifies = []
s.result = "net:H"
s.req("Inv", lambda c, A: Inv(c, A.snap0["H"]), ("C19",))
s.req("Fresh", lambda c, A: Fresh(c, A.snap0["H"]), ("C19",))
s.ens("result-frozen", ("C18", "C19"), lambda c, A, R: rsnap(R.result).frozen)
s.ens("result-consistent", ("C19",), lambda c, A, R: Inv(c, rsnap(R.result)))
s.ens_all("argument-unchanged", ("C19", "C08"), lambda c, A, R: same_state(c, A.snap0["H"], R.snap["H"]))
for e_ in ("TypeError", "XGIError", "ValueError", "IndexError", "UnboundLocalError", "IDNotFound"):
    s.exc(e_)


# ------------------------------------------------------------------ copy / dual / << / constructors (result is consistent, source untouched)
HQ = "xgi/core/hypergraph.py::Hypergraph."
DQ = "xgi/core/dihypergraph.py::DiHypergraph."
SQ = "xgi/core/simplicialcomplex.py::SimplicialComplex."


def derived(qual, kind, params, result_kind=None, props=("C04", "C07", "C19"), extra_self=None, fresh=True):
    s = contract(qual, [("self", "net:" + kind)] + params)
    s.modifies = []
    s.result = "net:" + (result_kind or kind)
    s.req("Inv", lambda c, A: Inv(c, A.S0), props)
    s.req("Fresh", lambda c, A: Fresh(c, A.S0), props)
    if fresh:
        s.ens("result-consistent", props, lambda c, A, R: z3.And(Inv(c, rsnap(R.result)), Fresh(c, rsnap(R.result))))
    else:
        # Fresh(result) needs the ids of the copied edges to be the source's ids: the adders' contracts do
        # not yet relate stored ids to the elements of a generator argument (bounded: native C07 oracle)
        s.ens("result-consistent", props, lambda c, A, R: Inv(c, rsnap(R.result)))
    s.ens("result-unfrozen", ("C18",) + tuple(props), lambda c, A, R: z3.Not(rsnap(R.result).frozen))
    s.ens_all("source-unchanged", ("C08",) + tuple(props), lambda c, A, R: same_state(c, A.S0, R.S))
    s.raises_any = True
    return s


s = derived(HQ + "copy", "H", [], fresh=False)
s.ens("same-counter", ("C04", "C07"), lambda c, A, R: rsnap(R.result).uid == A.S0.uid)
s = derived(DQ + "copy", "DH", [], fresh=False)
s.ens("same-counter", ("C04", "C07"), lambda c, A, R: rsnap(R.result).uid == A.S0.uid)
s = derived(HQ + "dual", "H", [], props=("C04", "C19"))
