"""Contracts: derived networks (C19) and their frozen state (C18)."""
import z3

from pyvc.spec import *

GV = "xgi/core/globalviews.py::"


def rsnap(x):
    """Snapshot of a result that is a network (symbolic VNet, or already a snapshot in replay)."""
    return x if isinstance(x, Snap) else Snap(x)


s = contract(GV + "subhypergraph", [("H", "net:H"), ("nodes", "val", None), ("edges", "val", None), ("keep_isolates", "bool", True)])
s.variants = [{"H": "net:H"}, {"H": "net:DH"}]
s.modifies = []
s.result = "net:H"
s.req("Inv", lambda c, A: Inv(c, A.snap0["H"]), ("C19",))
s.req("Fresh", lambda c, A: Fresh(c, A.snap0["H"]), ("C19",))
s.ens("result-frozen", ("C18", "C19"), lambda c, A, R: rsnap(R.result).frozen)
s.ens("result-consistent", ("C19",), lambda c, A, R: Inv(c, rsnap(R.result)))
s.ens_all("argument-unchanged", ("C19", "C08"), lambda c, A, R: same_state(c, A.snap0["H"], R.snap["H"]))
for e_ in ("TypeError", "XGIError", "ValueError", "IndexError", "UnboundLocalError", "IDNotFound"):
    s.exc(e_)
