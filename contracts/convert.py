"""Contracts: converters (C10 kernel; also the provenance part of C04: networks built through
add_node_to_edge keep the id counter above every integer edge id)."""
import z3

from pyvc.spec import *
from pyvc.values import VDict
from contracts.derived import rsnap
from contracts.common import G

BE = "xgi/convert/bipartite_edges.py::"
PROPS = ("C10", "C04")


def _pairs_pre(c, A):
    """The argument is a non-empty list of (node, edge) pairs of hashable, non-None ids."""
    t = A.edges.term
    L = c.content(t)
    return z3.And(c.is_list(t), c.len_of(t) >= 1, sel(L, c.sub(t, z3.IntVal(0))),
                  c.forall(["id"], lambda x: z3.Implies(sel(L, x), z3.And(
                      c.is_tuple(x), c.len_of(x) == 2, z3.Not(c.one_shot(x)), z3.Or(c.hashable(x), z3.Not(c.hashable(x))),
                      c.hashable(c.sub(x, z3.IntVal(0))), c.hashable(c.sub(x, z3.IntVal(1))),
                      c.sub(x, z3.IntVal(0)) != c.NONE, c.sub(x, z3.IntVal(1)) != c.NONE))))


def pair(c):
    return z3.Function("tuple2", c.Id, c.Id, c.Id)


def _pair_axioms(c, L):
    """2-tuples are determined by their components (Python tuple equality): the pair constructor is
    injective and every listed element is the pair of its components."""
    p = pair(c)
    return z3.And(c.forall(["id", "id"], lambda a, b: z3.And(c.sub(p(a, b), z3.IntVal(0)) == a, c.sub(p(a, b), z3.IntVal(1)) == b)),
                  c.forall(["id"], lambda x: z3.Implies(sel(L, x), x == p(c.sub(x, z3.IntVal(0)), c.sub(x, z3.IntVal(1))))))


def _incidences_are(c, S, P):
    """(node, edge) is an incidence of S exactly when the pair (node, edge) is in the set P."""
    p = pair(c)
    return c.forall(["id", "id"], lambda n, e: z3.And(sel(S.ek, e), sel(S.E, e, n)) == sel(P, p(n, e)))


def _fbe_loop(c, A, K):
    H = K.net("H")
    return [G("struct", ("C10",), UInv(c, H)), G("fresh", ("C04", "C10"), Fresh(c, H)),
            G("incidences", ("C10",), z3.And(_incidences_are(c, H, K.done), K.content == c.content(A.edges.term),
                                             c.forall(["id"], lambda n: z3.Implies(sel(H.nk, n), sel(H.N, n) != c.EMPTY))))]


s = contract(BE + "from_bipartite_edgelist", [("edges", "val")])
s.result = "net:H"
s.req("pairs", _pairs_pre, PROPS)
s.req("tuple-equality", lambda c, A: _pair_axioms(c, c.content(A.edges.term)), PROPS)
s.loop("for n, e in edges", _fbe_loop)
s.ens("incidences-are-the-pairs", ("C10",), lambda c, A, R: _incidences_are(c, rsnap(R.result), c.content(A.edges.term)))
s.ens("result-consistent", ("C10", "C04"), lambda c, A, R: z3.And(UInv(c, rsnap(R.result)), Fresh(c, rsnap(R.result))))
s.exc("TypeError")
s.exc("XGIError")
s.exc("IndexError")
s.exc("ValueError")


# ------------------------------------------------------------------ to_hyperedge_dict (C10): labelled copy of the edge table
HE = "xgi/convert/hyperedges.py::"
s = contract(HE + "to_hyperedge_dict", [("H", "net:H")])
s.variants = [{"H": "net:H"}, {"H": "net:SC"}]
s.modifies = []
s.result = "auto"
s.ens("edge-ids-with-copies-of-their-members", ("C10",), lambda c, A, R: z3.And(
    z3.BoolVal(isinstance(R.result, VDict) and R.result.valkind == "set" and bool(getattr(R.result, "fresh_values", False))),
    R.result.keys == A.snap0["H"].ek,
    c.forall(["id"], lambda e: z3.Implies(sel(A.snap0["H"].ek, e), sel(R.result.fields["v"], e) == sel(A.snap0["H"].E, e)))))
s.ens_all("argument-unchanged", ("C10", "C08"), lambda c, A, R: same_state(c, A.snap0["H"], R.snap["H"]))
s.notes = "through the contract of EdgeView.members(dtype=dict), itself discharged in contracts/views.py"
