"""Contracts for C18: freeze / is_frozen / exception.frozen and the frozen behaviour of mutators.

StructMut(C) is recomputed from the ASTs on every run (pyvc.frames.struct_mutators): `direct`
mutators must be shadowed by freeze(); `indirect` ones must raise XGIError or leave the tables
unchanged on a frozen instance (clause `frozen-unchanged` on their own contracts).
"""
import z3

from pyvc import frames, extract
from pyvc.spec import *

FILES = {"H": "xgi/core/hypergraph.py::Hypergraph.", "DH": "xgi/core/dihypergraph.py::DiHypergraph.",
         "SC": "xgi/core/simplicialcomplex.py::SimplicialComplex."}
_cache = {}


def direct(kind):
    if kind not in _cache:
        _cache[kind] = frames.struct_mutators(kind)
    return _cache[kind][0]


def indirect(kind):
    direct(kind)
    return _cache[kind][1]


def IsFrozen(c, S):
    """Every direct structural mutator of the instance's class is shadowed by exception.frozen."""
    return z3.And([S.shadow.of(m) for m in direct(S.kind)])


def frozen_clauses(s):
    """On a frozen instance the call leaves the tables unchanged, on every exit."""
    s.ens_all("frozen-unchanged", ("C18",), lambda c, A, R: z3.Implies(IsFrozen(c, A.S0), z3.And(
        same_tables(c, A.S0, R.S))))
    return s


for kind, pre in FILES.items():
    s = contract(pre + "freeze", [("self", "net:" + kind)])
    s.ens("direct-mutators-shadowed", ("C18",), lambda c, A, R: z3.And(IsFrozen(c, R.S), R.S.frozen))
    s.ens("state-unchanged", ("C18",), lambda c, A, R: same_state(c, A.S0, R.S))
    s.result = None

    def _eff(ex, A, nets, kind=kind):
        nets["self"].frozen_flag = z3.BoolVal(True)
        nets["self"].shadow.flag = z3.BoolVal(True)
    s.effect = _eff
