"""Contracts: xgi/algorithms/connected.py (C14, label-free so C09 follows)."""
import z3

from pyvc.spec import *
from contracts.common import G

CQ = "xgi/algorithms/connected.py::"
PROPS = ("C14", "C09")


def nbr(c, S, v, w):
    """w is a neighbour of v: they share an edge, w != v."""
    return z3.And(sel(S.nk, v), w != v, c.exists(["id"], lambda e: z3.And(sel(S.N, v, e), sel(S.E, e, w))))


def reach_fn(c):
    return z3.Function("reach", c.Id, c.Id, z3.BoolSort())


def reach_axioms(c, S, s):
    """reach(s, .) is reflexive at s and closed under nbr (the two defining rules; least-ness enters
    only through one instance of the induction principle, see _bfs_post)."""
    r = reach_fn(c)
    return z3.And(r(s, s), c.forall(["id", "id"], lambda v, w: z3.Implies(z3.And(r(s, v), nbr(c, S, v, w)), r(s, w))))


def lfp_instance(c, S, s, P):
    """Induction principle of the least fixpoint, instantiated at the set P (sound by definition)."""
    r = reach_fn(c)
    closed = z3.And(sel(P, s), c.forall(["id", "id"], lambda v, w: z3.Implies(z3.And(sel(P, v), nbr(c, S, v, w)), sel(P, w))))
    return z3.Implies(closed, c.forall(["id"], lambda v: z3.Implies(r(s, v), sel(P, v))))


def _sets(K):
    return K.ex.tset(K.L("seen")), K.ex.tset(K.L("nextlevel"))


def _bfs_while(c, A, K):
    S = A.snap0["H"]
    s = A.source.term
    r = reach_fn(c)
    seen, nxt = _sets(K)
    return [G("inv", PROPS, z3.And(
        reach_axioms(c, S, s), UInv(c, S), sel(S.nk, s),
        c.forall(["id"], lambda v: z3.Implies(z3.Or(sel(seen, v), sel(nxt, v)), r(s, v))),
        c.forall(["id", "id"], lambda v, w: z3.Implies(z3.And(sel(seen, v), nbr(c, S, v, w)), z3.Or(sel(seen, w), sel(nxt, w)))),
        z3.Or(sel(seen, s), sel(nxt, s)),
        c.forall(["id"], lambda v: z3.Implies(z3.Or(sel(seen, v), sel(nxt, v)), sel(S.nk, v)))))]


def _bfs_for(c, A, K):
    S = A.snap0["H"]
    s = A.source.term
    r = reach_fn(c)
    seen, nxt = _sets(K)
    this = K.content
    rest = c.diff(this, K.done)
    return [G("inv", PROPS, z3.And(
        reach_axioms(c, S, s), UInv(c, S), sel(S.nk, s),
        c.forall(["id"], lambda v: z3.Implies(z3.Or(sel(seen, v), sel(nxt, v), sel(this, v)), z3.And(r(s, v), sel(S.nk, v)))),
        c.forall(["id", "id"], lambda v, w: z3.Implies(z3.And(sel(seen, v), nbr(c, S, v, w)), z3.Or(sel(seen, w), sel(nxt, w), sel(rest, w)))),
        z3.Or(sel(seen, s), sel(nxt, s), sel(rest, s))))]


def _bfs_post(c, A, R):
    S = A.snap0["H"]
    s = A.source.term
    r = reach_fn(c)
    res = R.result.get()
    return z3.Implies(z3.And(reach_axioms(c, S, s), lfp_instance(c, S, s, res)),
                      c.forall(["id"], lambda v: sel(res, v) == r(s, v)))


s = contract(CQ + "_plain_bfs", [("H", "net:H"), ("source", "val")])
s.variants = [{"H": "net:H"}, {"H": "net:SC"}]
s.modifies = []
s.result = "set"
s.req("UInv", lambda c, A: UInv(c, A.snap0["H"]), PROPS)
s.req("source-is-a-node", lambda c, A: z3.And(sel(A.snap0["H"].nk, A.source.term), c.hashable(A.source.term)), PROPS)
s.req("reach-rules", lambda c, A: reach_axioms(c, A.snap0["H"], A.source.term), PROPS)
s.loop("while nextlevel", _bfs_while, modifies=["seen", "nextlevel", "thislevel", "v"])
s.loop("for v in thislevel", _bfs_for, modifies=["seen", "nextlevel", "v"])
s.ens("component-is-reach-set", PROPS, _bfs_post)
s.ens_all("state-unchanged", ("C14", "C08"), lambda c, A, R: same_state(c, A.snap0["H"], R.snap["H"]))
s.notes = "reach is the least relation closed under the neighbour rule; one instance of its induction principle (at the returned set) is assumed in the postcondition"


s = contract(CQ + "node_connected_component", [("H", "net:H"), ("n", "val")])
s.modifies = []
s.result = "set"
s.req("UInv", lambda c, A: UInv(c, A.snap0["H"]), PROPS)
s.req("reach-rules", lambda c, A: reach_axioms(c, A.snap0["H"], A.n.term), PROPS)
s.ens("component-is-reach-set", PROPS, lambda c, A, R: z3.Implies(
    lfp_instance(c, A.snap0["H"], A.n.term, R.result.get()),
    c.forall(["id"], lambda v: sel(R.result.get(), v) == reach_fn(c)(A.n.term, v))))
s.ens_all("state-unchanged", ("C14", "C08"), lambda c, A, R: same_state(c, A.snap0["H"], R.snap["H"]))
s.exc("XGIError", "not-a-node", PROPS, lambda c, A, R: z3.Not(z3.And(c.hashable(A.n.term), sel(A.snap0["H"].nk, A.n.term))))


# ------------------------------------------------------------------ is_connected
def closed(c, S, s, P):
    return z3.And(sel(P, s), c.forall(["id", "id"], lambda v, w: z3.Implies(z3.And(sel(P, v), nbr(c, S, v, w)), sel(P, w))))
s = contract(CQ + "is_connected", [("H", "net:H")])
s.modifies = []
s.result = "bool"
s.req("UInv", lambda c, A: UInv(c, A.snap0["H"]), PROPS)
s.req("reach-rules", lambda c, A: c.forall(["id"], lambda x: z3.Implies(sel(A.snap0["H"].nk, x), reach_axioms(c, A.snap0["H"], x))), PROPS)
s.req("reach-least", lambda c, A: c.forall(["id", "set"], lambda x, P: z3.Implies(closed(c, A.snap0["H"], x, P), c.forall(["id"], lambda v: z3.Implies(reach_fn(c)(x, v), sel(P, v))))), PROPS)
s.req("reach-within-nodes", lambda c, A: c.forall(["id", "id"], lambda x, v: z3.Implies(z3.And(sel(A.snap0["H"].nk, x), reach_fn(c)(x, v)), sel(A.snap0["H"].nk, v))), PROPS)
s.req("card-of-a-full-subset", lambda c, A: c.forall(["set"], lambda P: z3.Implies(z3.And(c.subset(P, A.snap0["H"].nk), c.card(P) == c.card(A.snap0["H"].nk)), P == A.snap0["H"].nk)), PROPS)
s.ens("connected-iff-one-node-reaches-all", PROPS, lambda c, A, R: z3.And(
    z3.Implies(R.result.term, c.exists(["id"], lambda x: z3.And(sel(A.snap0["H"].nk, x), c.forall(["id"], lambda v: z3.Implies(sel(A.snap0["H"].nk, v), reach_fn(c)(x, v)))))),
    z3.Implies(z3.Not(R.result.term), c.exists(["id", "id"], lambda x, v: z3.And(sel(A.snap0["H"].nk, x), sel(A.snap0["H"].nk, v), z3.Not(reach_fn(c)(x, v)))))))
s.ens_all("state-unchanged", ("C14", "C08"), lambda c, A, R: same_state(c, A.snap0["H"], R.snap["H"]))
s.exc("IndexError", "no-nodes", PROPS, lambda c, A, R: A.snap0["H"].nk == c.EMPTY)
s.notes = ("reach is the least relation closed under the neighbour rule: its rules, its induction principle (for every set), and the consequence that it stays within the node set are "
           "stated as preconditions (definitional); `a subset of the node set with as many elements as the node set is the node set` is an assumed fact about finite cardinalities")
