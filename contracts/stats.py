"""Contracts: xgi/stats/{nodestats,edgestats,dinodestats,diedgestats}.py - definitions of the
degree / size statistics (C06, and label-free so C09 follows; unweighted variants only)."""
import z3

from pyvc.spec import *

NS = "xgi/stats/nodestats.py::"
ES = "xgi/stats/edgestats.py::"
DNS = "xgi/stats/dinodestats.py::"
DES = "xgi/stats/diedgestats.py::"
PROPS = ("C06", "C09")


def _bunch_nodes(c, A):
    b = A.bunch.term
    return z3.And(c.iterable(b), z3.Not(c.one_shot(b)), c.elems_hashable(b), c.subset(c.content(b), A.snap0["net"].nk))


def _bunch_edges(c, A):
    b = A.bunch.term
    return z3.And(c.iterable(b), z3.Not(c.one_shot(b)), c.elems_hashable(b), c.subset(c.content(b), A.snap0["net"].ek))


def _res(c, A, R, f):
    """result is a dict on exactly the bunch with value f(id)."""
    d = R.result
    return z3.And(d.keys == c.content(A.bunch.term),
                  c.forall(["id"], lambda x: z3.Implies(sel(d.keys, x), sel(d.fields["v"], x) == f(x))))


def _count(c, S, pred):
    return c.card(c.setof(lambda y: z3.And(sel(S, y), pred(y))))


def stat(qual, kind, bunch_pre, extra_params, f, name="definition"):
    s = contract(qual, [("net", "net:" + kind), ("bunch", "val")] + extra_params)
    s.modifies = []
    s.result = "dict:int"
    s.req("bunch-in-network", bunch_pre, PROPS)
    s.ens(name, PROPS, lambda c, A, R: _res(c, A, R, lambda x: f(c, A, A.snap0["net"], x)))
    s.ens_all("state-unchanged", ("C06", "C08"), lambda c, A, R: same_state(c, A.snap0["net"], R.snap["net"]))
    return s


def _count_by_order(c, A, M, size_of):
    """number of edges in M, all of them when `order` is None, else those with order+1 members.
    Stated as an if-then-else on the argument (not as a disjunction inside the filter) so that on each path the
    definition is syntactically the counting term the code builds: no lambda extensionality is needed."""
    o = A.order.term
    return z3.If(o == c.NONE, c.card(M), _count(c, M, lambda e: size_of(e) == c.int_of(o) + 1))


# undirected ------------------------------------------------------------------
s = stat(NS + "degree", "H", _bunch_nodes, [("order", "val", None), ("weight", "val", None)],
         lambda c, A, S, n: _count_by_order(c, A, sel(S.N, n), lambda e: c.card(sel(S.E, e))))
s.req("unweighted", lambda c, A: A.weight.term == c.NONE, PROPS)
s.req("order-int-or-none", lambda c, A: z3.Or(A.order.term == c.NONE, c.is_int(A.order.term)), PROPS)
s.req("UInv", lambda c, A: UInv(c, A.snap0["net"]), PROPS)

s = stat(ES + "size", "H", _bunch_edges, [("degree", "val", None)], lambda c, A, S, e: c.card(sel(S.E, e)))
s.req("no-degree-filter", lambda c, A: A.degree.term == c.NONE, PROPS)
s = stat(ES + "order", "H", _bunch_edges, [("degree", "val", None)], lambda c, A, S, e: c.card(sel(S.E, e)) - 1)
s.req("no-degree-filter", lambda c, A: A.degree.term == c.NONE, PROPS)

# directed ------------------------------------------------------------------
def _dsize(c, S, e):
    return c.card(c.union(sel(S.Ein, e), sel(S.Eout, e)))




for nm, memb in (("degree", lambda c, S, n: c.union(sel(S.Nin, n), sel(S.Nout, n))),
                 ("in_degree", lambda c, S, n: sel(S.Nin, n)), ("out_degree", lambda c, S, n: sel(S.Nout, n))):
    s = stat(DNS + nm, "DH", _bunch_nodes, [("order", "val", None), ("weight", "val", None)],
             lambda c, A, S, n, memb=memb: _count_by_order(c, A, memb(c, S, n), lambda e: _dsize(c, S, e)))
    s.req("unweighted", lambda c, A: A.weight.term == c.NONE, PROPS)
    s.req("order-int-or-none", lambda c, A: z3.Or(A.order.term == c.NONE, c.is_int(A.order.term)), PROPS)
    s.req("DInv", lambda c, A: DInv(c, A.snap0["net"]), PROPS)
    # (no special budget: the ground-hypotheses attempt of the portfolio decides the definition in well under a second)

for nm, f in (("size", lambda c, A, S, e: _dsize(c, S, e)), ("order", lambda c, A, S, e: _dsize(c, S, e) - 1),
              ("tail_size", lambda c, A, S, e: c.card(sel(S.Ein, e))), ("tail_order", lambda c, A, S, e: c.card(sel(S.Ein, e)) - 1),
              ("head_size", lambda c, A, S, e: c.card(sel(S.Eout, e))), ("head_order", lambda c, A, S, e: c.card(sel(S.Eout, e)) - 1)):
    s = stat(DES + nm, "DH", _bunch_edges, [("degree", "val", None)], f)
    s.req("no-degree-filter", lambda c, A: A.degree.term == c.NONE, PROPS)
