"""Contracts: generators (C16 kernel).  The random models are covered by the bounded oracle; the
deterministic constructors below are verified."""
import z3

from pyvc.spec import *
from contracts.derived import rsnap

CL = "xgi/generators/classic.py::"
PROPS = ("C16",)


def _is_range(c, keys, n):
    return c.forall(["id"], lambda x: sel(keys, x) == z3.And(c.is_int(x), c.int_of(x) >= 0, c.int_of(x) < n))


s = contract(CL + "_empty_network", [("create_using", "val", None), ("default", "val", None)])
s.assumed = True
s.notes = "assumed for create_using=None: default() is the class constructor, whose contract (empty network) is the base case of C01/C04"
s.result = "net:H"
s.req("no-create_using", lambda c, A: A.create_using.term == c.NONE)
s.ens("empty", PROPS, lambda c, A, R: z3.And(rsnap(R.result).nk == c.EMPTY, rsnap(R.result).ek == c.EMPTY, rsnap(R.result).nak == c.EMPTY,
                                              rsnap(R.result).eak == c.EMPTY, rsnap(R.result).uid == 0, z3.Not(rsnap(R.result).frozen)))

s = contract(CL + "trivial_hypergraph", [("n", "int", 1), ("create_using", "val", None), ("default", "val", None)])
s.result = "net:H"
s.req("no-create_using", lambda c, A: A.create_using.term == c.NONE, PROPS)
s.ens("n-isolated-nodes", PROPS, lambda c, A, R: z3.And(_is_range(c, rsnap(R.result).nk, A.n.term), rsnap(R.result).ek == c.EMPTY, UInv(c, rsnap(R.result))))
s.exc("TypeError")
