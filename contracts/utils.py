"""Contracts: xgi/utils/utilities.py"""
import z3

from pyvc.spec import *

U = "xgi/utils/utilities.py::"


def _uuc_new(c, A, R):
    idx = A.idx.term
    bump = z3.And(z3.Not(c.is_str(idx)), z3.Not(c.is_tuple(idx)), c.intlike(idx), A.snap0["H"].uid <= c.int_of(idx))
    return R.snap["H"].uid == z3.If(bump, c.int_of(idx) + 1, A.snap0["H"].uid)


s = contract(U + "update_uid_counter", [("H", "net:H"), ("idx", "val")])
s.variants = [{"H": "net:H"}, {"H": "net:DH"}]
s.ens("uid'", ("C01", "C02", "C03", "C04"), _uuc_new)
s.ens_all("only-counter", ("C01", "C02", "C03", "C04", "C05"), lambda c, A, R: z3.And(
    same_tables(c, A.snap0["H"], R.snap["H"]), A.snap0["H"].neth == R.snap["H"].neth, A.snap0["H"].netv == R.snap["H"].netv))
s.ens_all("counter-monotone", ("C01", "C02", "C03", "C04"), lambda c, A, R: R.snap["H"].uid >= A.snap0["H"].uid)
s.modifies = ["H"]
