"""Contracts: xgi/utils/utilities.py"""
import z3

from pyvc.spec import *

U = "xgi/utils/utilities.py::"


def _uuc_new(c, A, R):
    idx = A.idx.term
    bump = z3.And(z3.Not(c.is_str(idx)), z3.Not(c.is_tuple(idx)), c.intlike(idx), A.snap0["H"].uid <= c.int_of(idx))
    return R.snap["H"].uid == z3.If(bump, c.int_of(idx) + 1, A.snap0["H"].uid)


s = contract(U + "update_uid_counter", [("H", "net:H"), ("idx", "val")])
s.variants = [{"H": "net:H"}, {"H": "net:DH"}]
s.ens("uid'", ("C01", "C02", "C03", "C04"), _uuc_new)
s.ens_all("only-counter", ("C01", "C02", "C03", "C04", "C05"), lambda c, A, R: z3.And(
    same_tables(c, A.snap0["H"], R.snap["H"]), A.snap0["H"].neth == R.snap["H"].neth, A.snap0["H"].netv == R.snap["H"].netv))
s.ens_all("counter-monotone", ("C01", "C02", "C03", "C04"), lambda c, A, R: R.snap["H"].uid >= A.snap0["H"].uid)
s.modifies = ["H"]


# ------------------------------------------------------------------ IDDict: the table type of all networks
# The executor's model of an IDDict table (IDNotFound on a missing key, XGIError on key None,
# TypeError on an unhashable key) is what these three methods are verified to implement on top of
# plain dict semantics (KeyError / TypeError).
ID = "xgi/utils/utilities.py::IDDict."
IDP = ("C01", "C02", "C03", "C05")


def _keys(A):
    return A.v["self"].keys


s = contract(ID + "__getitem__", [("self", "pydict"), ("item", "val")])
s.result = "val"
s.ens("returns-stored-value", IDP, lambda c, A, R: z3.And(sel(_keys(A), A.item.term), R.result.term == sel(A.v["self"].fields["v"], A.item.term)))
s.exc("IDNotFound", "missing-key", IDP, lambda c, A, R: z3.And(c.hashable(A.item.term), z3.Not(sel(_keys(A), A.item.term))))
s.exc("TypeError", "unhashable-key", IDP, lambda c, A, R: z3.Not(c.hashable(A.item.term)))

s = contract(ID + "__delitem__", [("self", "pydict"), ("item", "val")])
s.exc("IDNotFound", "missing-key", IDP, lambda c, A, R: z3.And(c.hashable(A.item.term), z3.Not(sel(_keys(A), A.item.term))))
s.exc("TypeError", "unhashable-key", IDP, lambda c, A, R: z3.Not(c.hashable(A.item.term)))

s = contract(ID + "__setitem__", [("self", "pydict"), ("item", "val"), ("value", "val")])
s.result = "val"
s.exc("XGIError", "none-key", IDP, lambda c, A, R: A.item.term == c.NONE)
s.exc("TypeError", "unhashable-key", IDP, lambda c, A, R: z3.And(A.item.term != c.NONE, z3.Not(c.hashable(A.item.term))))
