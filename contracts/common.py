"""Contract fragments shared by the three network classes."""
import z3

from pyvc.spec import *


def G(label, props, f):
    return (label, props, f)


def anf_post(c, A, K):
    """One iteration: the listed node gets `existing record <- attr <- its own dict`; no other attribute record changes."""
    S, Hd, x = K.S, K.head["self"], K.x
    ah, av = A.kw0["attr"]
    plain = c.hashable(x)
    n = z3.If(plain, x, c.sub(x, z3.IntVal(0)))
    d = c.sub(x, z3.IntVal(1))
    bh = z3.If(sel(Hd.nak, n), sel(Hd.NAh, n), c.EMPTY)
    bv = sel(Hd.NAv, n)
    dh, dv = c.akeys(d), c.avals(d)
    RH, RV = sel(S.NAh, n), sel(S.NAv, n)
    two = z3.And(c.forall(["id"], lambda k: sel(RH, k) == z3.Or(sel(bh, k), sel(ah, k), sel(dh, k))),
                 c.forall(["id"], lambda k: z3.Implies(sel(RH, k), sel(RV, k) == z3.If(sel(dh, k), sel(dv, k), z3.If(sel(ah, k), sel(av, k), sel(bv, k))))))
    return [G("attrs", ("C05",), z3.And(
        z3.Implies(plain, rec_update(c, bh, bv, ah, av)(RH, RV)),
        z3.Implies(z3.Not(plain), two),
        c.forall(["id"], lambda m: z3.Implies(z3.And(sel(Hd.nak, m), m != n), rec_eq(c, sel(S.NAh, m), sel(S.NAv, m), sel(Hd.NAh, m), sel(Hd.NAv, m))))))]




def node_of(c, x):
    """The node an element of add_nodes_from's argument stands for: itself, or the first entry of a (node, attrs) pair."""
    return z3.If(c.hashable(x), x, c.sub(x, z3.IntVal(0)))


def nodes_of(c, D):
    return c.setof(lambda n: c.exists(["id"], lambda x: z3.And(sel(D, x), n == node_of(c, x))))
