"""Contract fragments shared by the three network classes."""
import z3

from pyvc.spec import *


def G(label, props, f):
    return (label, props, f)


def anf_post(c, A, K):
    """One iteration: the listed node gets `existing record <- attr <- its own dict`; no other attribute record changes."""
    S, Hd, x = K.S, K.head["self"], K.x
    ah, av = A.kw0["attr"]
    plain = c.hashable(x)
    n = z3.If(plain, x, c.sub(x, z3.IntVal(0)))
    d = c.sub(x, z3.IntVal(1))
    bh = z3.If(sel(Hd.nak, n), sel(Hd.NAh, n), c.EMPTY)
    bv = sel(Hd.NAv, n)
    dh, dv = c.akeys(d), c.avals(d)
    RH, RV = sel(S.NAh, n), sel(S.NAv, n)
    two = z3.And(c.forall(["id"], lambda k: sel(RH, k) == z3.Or(sel(bh, k), sel(ah, k), sel(dh, k))),
                 c.forall(["id"], lambda k: z3.Implies(sel(RH, k), sel(RV, k) == z3.If(sel(dh, k), sel(dv, k), z3.If(sel(ah, k), sel(av, k), sel(bv, k))))))
    return [G("attrs", ("C05",), z3.And(
        z3.Implies(plain, rec_update(c, bh, bv, ah, av)(RH, RV)),
        z3.Implies(z3.Not(plain), two),
        c.forall(["id"], lambda m: z3.Implies(z3.And(sel(Hd.nak, m), m != n), rec_eq(c, sel(S.NAh, m), sel(S.NAv, m), sel(Hd.NAh, m), sel(Hd.NAv, m))))))]




def node_of(c, x):
    """The node an element of add_nodes_from's argument stands for: itself, or the first entry of a (node, attrs) pair."""
    return z3.If(c.hashable(x), x, c.sub(x, z3.IntVal(0)))


def nodes_of(c, D):
    return c.setof(lambda n: c.exists(["id"], lambda x: z3.And(sel(D, x), n == node_of(c, x))))


# ------------------------------------------------------------------ attribute setters: documented effect (C05)
def _attr_tabs(S, which):
    return (S.nak, S.NAh, S.NAv) if which == "node" else (S.eak, S.EAh, S.EAv)


def setter_effect(c, which, S, S0, values, name, D, mode):
    """Effect of set_node_attributes / set_edge_attributes on the attribute records, for the ids in D (already processed):
    mode 'dd'   : record(x) <- record(x) updated with the dict values[x]          (dict of dicts, name is None)
    mode 'dv'   : record(x)[name] <- values[x]                                      (dict of values, name given)
    mode 'const': record(x)[name] <- values                                         (one value for every id)
    every other record is unchanged; ids of `values` that are not in the network are ignored."""
    ak0, Ah0, Av0 = _attr_tabs(S0, which)
    ak, Ah, Av = _attr_tabs(S, which)
    vals = c.avals(values)

    def per(x):
        h, v, h0, v0 = sel(Ah, x), sel(Av, x), sel(Ah0, x), sel(Av0, x)
        if mode == "dd":
            d = sel(vals, x)
            upd = rec_update(c, h0, v0, c.akeys(d), c.avals(d))(h, v)
        else:
            new = sel(vals, x) if mode == "dv" else values
            upd = z3.And(c.forall(["id"], lambda k: sel(h, k) == z3.Or(sel(h0, k), k == name)),
                         c.forall(["id"], lambda k: z3.Implies(sel(h, k), sel(v, k) == z3.If(k == name, new, sel(v0, k)))))
        return z3.If(sel(D, x), upd, rec_eq(c, h, v, h0, v0))
    return c.forall(["id"], lambda x: z3.Implies(sel(ak0, x), per(x)))


def setter_loop(which, mode, base):
    """Loop invariant of one of the three loops of an attribute setter: `base` (the structural part) + the effect on the ids done."""
    def inv(c, A, K):
        groups = base(c, A, K)
        if not isinstance(groups, list):
            groups = [G("inv", ("C01", "C02", "C04", "C05"), groups)]
        return groups + [G("effect", ("C05",), setter_effect(c, which, K.S, A.S0, A.values.term, A.name.term, K.done, mode))]
    return inv


def setter_post(which):
    def post(c, A, R):
        S, S0, values, name = R.S, A.S0, A.values.term, A.name.term
        keys = c.akeys(values)
        allk = _attr_tabs(S0, which)[0]
        return z3.And(
            z3.Implies(name == c.NONE, setter_effect(c, which, S, S0, values, name, keys, "dd")),
            z3.Implies(z3.And(name != c.NONE, c.is_dict(values)), setter_effect(c, which, S, S0, values, name, keys, "dv")),
            z3.Implies(z3.And(name != c.NONE, z3.Not(c.is_dict(values))), setter_effect(c, which, S, S0, values, name, allk, "const")))
    return post
