"""Contracts: xgi/core/hypergraph.py (undirected hypergraph).  Properties C01, C04, C05, C18."""
import z3

from pyvc.spec import *

H = "xgi/core/hypergraph.py::Hypergraph."
STRUCT = ("C01",)
ALL = ("C01", "C04", "C05")


def G(label, props, f):
    return (label, props, f)


def std(s, kinds=("H",)):
    """UInv in, UInv on every exit; Fresh in, Fresh on every exit."""
    s.req("UInv", lambda c, A: UInv(c, A.S0), ("C01",))
    # Fresh is part of the inductive invariant C01 needs: an automatic id equal to an existing one
    # would overwrite that edge's member set while its members still list it
    s.req("Fresh", lambda c, A: Fresh(c, A.S0), ("C01", "C04"))
    s.ens_all("UInv", ("C01",), lambda c, A, R: UInv(c, R.S))
    s.ens_all("Fresh", ("C01", "C04"), lambda c, A, R: Fresh(c, R.S))
    return s


# ------------------------------------------------------------------ add_node
s = std(contract(H + "add_node", [("self", "net:H"), ("node", "val"), ("attr", "kwattr")]))
s.exc("XGIError", "none-node", ("C05",), lambda c, A, R: z3.And(A.node.term == c.NONE, same_state(c, A.S0, R.S)))
s.exc("TypeError", "unhashable", ("C05",), lambda c, A, R: z3.And(z3.Not(c.hashable(A.node.term)), same_state(c, A.S0, R.S)))
s.ens("effect", ("C05",), lambda c, A, R: z3.And(
    R.S.nk == c.add(A.S0.nk, A.node.term), R.S.ek == A.S0.ek,
    c.forall(["id"], lambda e: z3.Implies(sel(A.S0.ek, e), sel(R.S.E, e) == sel(A.S0.E, e))),
    c.forall(["id"], lambda n: z3.Implies(sel(A.S0.nk, n), sel(R.S.N, n) == sel(A.S0.N, n))),
    z3.Implies(z3.Not(sel(A.S0.nk, A.node.term)), sel(R.S.N, A.node.term) == c.EMPTY),
    R.S.uid == A.S0.uid))


# ------------------------------------------------------------------ add_edge
def _uid_term(c, K):
    return K.ex.tid(K.L("uid"))


def _add_edge_loop(c, A, K):
    S, S0 = K.S, A.S0
    u = _uid_term(c, K)
    done = K.done
    auto = A.idx.term == c.NONE
    return [
        G("entry", ALL, z3.And(UInv(c, S0), Fresh(c, S0), K.content == K.ex.tset(K.L("members")),
                               z3.Not(sel(K.content, c.NONE)), z3.Not(sel(S0.ek, u)), u != c.NONE,
                               z3.Implies(auto, u == c.of_int(S0.uid)), z3.Implies(z3.Not(auto), u == A.idx.term))),
        G("struct", ("C01",), z3.And(
            two_way(c, S), S.nk == S.nak, S.eak == S0.eak, S.ek == c.add(S0.ek, u), z3.Not(sel(S.nk, c.NONE)))),
        G("counter", ("C01", "C04"), S.uid == z3.If(auto, S0.uid + 1, S0.uid)),
        G("kept", ("C04",), z3.And(
            c.forall(["id"], lambda e: z3.Implies(sel(S0.ek, e), z3.And(sel(S.E, e) == sel(S0.E, e)))),
            c.forall(["id"], lambda e: z3.Implies(sel(S0.eak, e), z3.And(sel(S.EAh, e) == sel(S0.EAh, e), sel(S.EAv, e) == sel(S0.EAv, e)))))),
        G("effect", ("C05",), z3.And(
            sel(S.E, u) == done, S.nk == c.union(S0.nk, done),
            c.forall(["id"], lambda n: z3.Implies(sel(S.nk, n), sel(S.N, n) == z3.If(
                sel(S0.nk, n), z3.If(sel(done, n), c.add(sel(S0.N, n), u), sel(S0.N, n)), c.single(u)))),
            c.forall(["id"], lambda n: z3.Implies(sel(S0.nak, n), z3.And(sel(S.NAh, n) == sel(S0.NAh, n), sel(S.NAv, n) == sel(S0.NAv, n)))),
            S.neth == S0.neth, S.netv == S0.netv)),
    ]


s = std(contract(H + "add_edge", [("self", "net:H"), ("members", "val"), ("idx", "val"), ("attr", "kwattr")]))
s.loop("for node in members", _add_edge_loop)
s.ens_all("existing-edges-kept", ("C04",), lambda c, A, R: edges_kept(c, A.S0, R.S))
s.ens("refuse-existing-id", ("C04",), lambda c, A, R: z3.Implies(sel(A.S0.ek, A.idx.term), z3.And(same_state(c, A.S0, R.S), R.S.warned)))
s.exc("TypeError")
s.exc("XGIError")


# ------------------------------------------------------------------ shared frame helpers
def attrs_same(c, S, S0):
    return z3.And(
        S.nak == S0.nak, S.eak == S0.eak,
        c.forall(["id"], lambda n: z3.Implies(sel(S0.nak, n), z3.And(sel(S.NAh, n) == sel(S0.NAh, n), sel(S.NAv, n) == sel(S0.NAv, n)))),
        c.forall(["id"], lambda e: z3.Implies(sel(S0.eak, e), z3.And(sel(S.EAh, e) == sel(S0.EAh, e), sel(S.EAv, e) == sel(S0.EAv, e)))))


def node_attrs_same_on(c, S, S0):
    """attribute records of nodes that existed at entry are unchanged (key sets may differ)"""
    return c.forall(["id"], lambda n: z3.Implies(z3.And(sel(S0.nak, n), sel(S.nak, n)), z3.And(sel(S.NAh, n) == sel(S0.NAh, n), sel(S.NAv, n) == sel(S0.NAv, n))))


def edge_attrs_same_on(c, S, S0):
    return c.forall(["id"], lambda e: z3.Implies(z3.And(sel(S0.eak, e), sel(S.eak, e)), z3.And(sel(S.EAh, e) == sel(S0.EAh, e), sel(S.EAv, e) == sel(S0.EAv, e))))


def net_same(c, S, S0):
    return z3.And(S.uid == S0.uid, S.neth == S0.neth, S.netv == S0.netv)


def two_way(c, S):
    return c.forall(["id", "id"], lambda n, e: z3.And(sel(S.nk, n), sel(S.N, n, e)) == z3.And(sel(S.ek, e), sel(S.E, e, n)))


# ------------------------------------------------------------------ remove_edge
def _remove_edge_loop(c, A, K):
    S, S0 = K.S, A.S0
    e = A.idx.term
    return z3.And(
        UInv(c, S0), sel(S0.ek, e),
        K.content == sel(S0.E, e),
        S.nk == S0.nk, S.ek == S0.ek, attrs_same(c, S, S0), net_same(c, S, S0),
        c.forall(["id"], lambda f: z3.Implies(sel(S0.ek, f), sel(S.E, f) == sel(S0.E, f))),
        c.forall(["id"], lambda n: z3.Implies(sel(S0.nk, n), sel(S.N, n) == z3.If(sel(K.done, n), c.rem(sel(S0.N, n), e), sel(S0.N, n)))))


def _remove_edge_effect(c, A, R):
    S, S0 = R.S, A.S0
    e = A.idx.term
    return z3.And(
        S.ek == c.rem(S0.ek, e), S.nk == S0.nk, net_same(c, S, S0),
        c.forall(["id"], lambda f: z3.Implies(sel(S.ek, f), sel(S.E, f) == sel(S0.E, f))),
        c.forall(["id"], lambda n: z3.Implies(sel(S0.nk, n), sel(S.N, n) == c.rem(sel(S0.N, n), e))),
        node_attrs_same_on(c, S, S0), edge_attrs_same_on(c, S, S0))


s = std(contract(H + "remove_edge", [("self", "net:H"), ("idx", "val")]))
s.loop("for node in self._edge[idx].copy()", _remove_edge_loop)
s.ens("effect", ("C05",), _remove_edge_effect)
s.exc("IDNotFound", "missing-id", ("C05",), lambda c, A, R: z3.And(z3.Not(sel(A.S0.ek, A.idx.term)), same_state(c, A.S0, R.S)))
s.exc("TypeError", "unhashable-id", ("C05",), lambda c, A, R: z3.And(z3.Not(c.hashable(A.idx.term)), same_state(c, A.S0, R.S)))


# ------------------------------------------------------------------ add_node_to_edge
s = std(contract(H + "add_node_to_edge", [("self", "net:H"), ("edge", "val"), ("node", "val")]))
s.ens_all("existing-edges-kept-or-grown", ("C04",), lambda c, A, R: c.forall(["id"], lambda e: z3.Implies(
    z3.And(sel(A.S0.ek, e), e != A.edge.term), z3.And(sel(R.S.ek, e), sel(R.S.E, e) == sel(A.S0.E, e)))))
s.ens("effect", ("C05",), lambda c, A, R: z3.And(
    R.S.ek == c.add(A.S0.ek, A.edge.term), R.S.nk == c.add(A.S0.nk, A.node.term),
    sel(R.S.E, A.edge.term) == c.add(z3.If(sel(A.S0.ek, A.edge.term), sel(A.S0.E, A.edge.term), c.EMPTY), A.node.term),
    sel(R.S.N, A.node.term) == c.add(z3.If(sel(A.S0.nk, A.node.term), sel(A.S0.N, A.node.term), c.EMPTY), A.edge.term),
    c.forall(["id"], lambda e: z3.Implies(z3.And(sel(A.S0.ek, e), e != A.edge.term), sel(R.S.E, e) == sel(A.S0.E, e))),
    c.forall(["id"], lambda n: z3.Implies(z3.And(sel(A.S0.nk, n), n != A.node.term), sel(R.S.N, n) == sel(A.S0.N, n))),
    node_attrs_same_on(c, R.S, A.S0), edge_attrs_same_on(c, R.S, A.S0)))
s.exc("XGIError")
s.exc("TypeError")


# ------------------------------------------------------------------ remove_node_from_edge
def _rnfe_effect(c, A, R):
    S, S0 = R.S, A.S0
    e, n = A.edge.term, A.node.term
    gone = z3.And(A.remove_empty.term, sel(S0.E, e) == c.single(n))
    return z3.And(
        S.nk == S0.nk, S.ek == z3.If(gone, c.rem(S0.ek, e), S0.ek), net_same(c, S, S0),
        z3.Implies(z3.Not(gone), sel(S.E, e) == c.rem(sel(S0.E, e), n)),
        sel(S.N, n) == c.rem(sel(S0.N, n), e),
        c.forall(["id"], lambda f: z3.Implies(z3.And(sel(S.ek, f), f != e), sel(S.E, f) == sel(S0.E, f))),
        c.forall(["id"], lambda m: z3.Implies(z3.And(sel(S.nk, m), m != n), sel(S.N, m) == sel(S0.N, m))),
        node_attrs_same_on(c, S, S0), edge_attrs_same_on(c, S, S0))


s = std(contract(H + "remove_node_from_edge", [("self", "net:H"), ("edge", "val"), ("node", "val"), ("remove_empty", "bool", True)]))
s.ens("effect", ("C05",), _rnfe_effect)
s.exc("XGIError", "rejected", ("C05",), lambda c, A, R: z3.And(
    z3.Or(z3.Not(sel(A.S0.ek, A.edge.term)), z3.Not(sel(A.S0.nk, A.node.term)), z3.Not(sel(A.S0.E, A.edge.term, A.node.term))),
    same_state(c, A.S0, R.S)))
s.exc("TypeError", "unhashable", ("C05",), lambda c, A, R: same_state(c, A.S0, R.S))


# ------------------------------------------------------------------ clear / clear_edges
s = std(contract(H + "clear", [("self", "net:H"), ("remove_net_attr", "bool", True)]))
s.ens("effect", ("C05",), lambda c, A, R: z3.And(
    R.S.nk == c.EMPTY, R.S.ek == c.EMPTY, R.S.nak == c.EMPTY, R.S.eak == c.EMPTY, R.S.uid == A.S0.uid,
    z3.If(A.remove_net_attr.term, R.S.neth == c.EMPTY, z3.And(R.S.neth == A.S0.neth, R.S.netv == A.S0.netv))))


def _clear_edges_loop(c, A, K):
    S, S0 = K.S, A.S0
    return z3.And(S.nk == S0.nk, S.ek == S0.ek, attrs_same(c, S, S0), net_same(c, S, S0), UInv(c, S0), Fresh(c, S0),
                  c.forall(["id"], lambda n: z3.Implies(z3.And(sel(S.nk, n), sel(K.done, n)), sel(S.N, n) == c.EMPTY)))


s = std(contract(H + "clear_edges", [("self", "net:H")]))
s.loop("for node in self.nodes", _clear_edges_loop)
s.ens("effect", ("C05",), lambda c, A, R: z3.And(
    R.S.nk == A.S0.nk, R.S.ek == c.EMPTY, R.S.eak == c.EMPTY, net_same(c, R.S, A.S0),
    c.forall(["id"], lambda n: z3.Implies(sel(R.S.nk, n), sel(R.S.N, n) == c.EMPTY)),
    node_attrs_same_on(c, R.S, A.S0), R.S.nak == A.S0.nak))


# ------------------------------------------------------------------ remove_node
def _rn_common(c, S, S0, n):
    return z3.And(UInv(c, S0), Fresh(c, S0), sel(S0.nk, n),
                  S.nk == c.rem(S0.nk, n), S.nak == c.rem(S0.nak, n), net_same(c, S, S0),
                  node_attrs_same_on(c, S, S0), edge_attrs_same_on(c, S, S0))


def _rn_strong_outer(c, A, K):
    S, S0, n, D = K.S, A.S0, A.n.term, K.done
    return z3.And(
        _rn_common(c, S, S0, n), K.content == sel(S0.N, n),
        c.forall(["id"], lambda f: sel(S.ek, f) == z3.And(sel(S0.ek, f), z3.Not(sel(D, f)))), S.eak == S.ek,
        c.forall(["id"], lambda f: z3.Implies(sel(S.ek, f), sel(S.E, f) == sel(S0.E, f))),
        c.forall(["id"], lambda m: z3.Implies(sel(S.nk, m), sel(S.N, m) == c.diff(sel(S0.N, m), D))))


def _rn_strong_inner(c, A, K):
    S, S0, n, D2 = K.S, A.S0, A.n.term, K.done
    O = K.outer
    D, e = O.done, O.x
    return z3.And(
        _rn_common(c, S, S0, n), O.content == sel(S0.N, n), c.subset(D, O.content), sel(O.content, e), z3.Not(sel(D, e)),
        K.content == c.diff(sel(S0.E, e), c.single(n)),
        c.forall(["id"], lambda f: sel(S.ek, f) == z3.And(sel(S0.ek, f), z3.Not(sel(D, f)), f != e)), S.eak == S.ek,
        c.forall(["id"], lambda f: z3.Implies(sel(S.ek, f), sel(S.E, f) == sel(S0.E, f))),
        c.forall(["id"], lambda m: z3.Implies(sel(S.nk, m), sel(S.N, m) == z3.If(
            sel(D2, m), c.rem(c.diff(sel(S0.N, m), D), e), c.diff(sel(S0.N, m), D)))))


def _rn_weak(c, A, K):
    S, S0, n, D = K.S, A.S0, A.n.term, K.done
    gone = lambda f: z3.And(sel(D, f), A.remove_empty.term, sel(S0.E, f) == c.single(n))
    return z3.And(
        _rn_common(c, S, S0, n), K.content == sel(S0.N, n),
        c.forall(["id"], lambda f: sel(S.ek, f) == z3.And(sel(S0.ek, f), z3.Not(gone(f)))), S.eak == S.ek,
        c.forall(["id"], lambda f: z3.Implies(sel(S.ek, f), sel(S.E, f) == z3.If(sel(D, f), c.rem(sel(S0.E, f), n), sel(S0.E, f)))),
        c.forall(["id"], lambda m: z3.Implies(sel(S.nk, m), sel(S.N, m) == sel(S0.N, m))))


def _rn_effect(c, A, R):
    S, S0, n = R.S, A.S0, A.n.term
    Nn = sel(S0.N, n)
    strong = z3.And(
        c.forall(["id"], lambda f: sel(S.ek, f) == z3.And(sel(S0.ek, f), z3.Not(sel(Nn, f)))),
        c.forall(["id"], lambda f: z3.Implies(sel(S.ek, f), sel(S.E, f) == sel(S0.E, f))),
        c.forall(["id"], lambda m: z3.Implies(sel(S.nk, m), sel(S.N, m) == c.diff(sel(S0.N, m), Nn))))
    weak = z3.And(
        c.forall(["id"], lambda f: sel(S.ek, f) == z3.And(sel(S0.ek, f), z3.Not(z3.And(
            A.remove_empty.term, sel(Nn, f), sel(S0.E, f) == c.single(n))))),
        c.forall(["id"], lambda f: z3.Implies(sel(S.ek, f), sel(S.E, f) == c.rem(sel(S0.E, f), n))),
        c.forall(["id"], lambda m: z3.Implies(sel(S.nk, m), sel(S.N, m) == sel(S0.N, m))))
    return z3.And(S.nk == c.rem(S0.nk, n), net_same(c, S, S0), node_attrs_same_on(c, S, S0), edge_attrs_same_on(c, S, S0),
                  z3.If(A.strong.term, strong, weak))


s = std(contract(H + "remove_node", [("self", "net:H"), ("n", "val"), ("strong", "bool", False), ("remove_empty", "bool", True)]))
s.loop("for e in edge_neighbors", _rn_strong_outer)
s.loop("for node in node_neighbors.difference({n})", _rn_strong_inner)
s.loop("for edge in edge_neighbors", _rn_weak)
s.ens("effect", ("C05",), _rn_effect)
s.exc("IDNotFound", "missing-id", ("C05",), lambda c, A, R: z3.And(z3.Not(sel(A.S0.nk, A.n.term)), same_state(c, A.S0, R.S)))
s.exc("TypeError", "unhashable-id", ("C05",), lambda c, A, R: z3.And(z3.Not(c.hashable(A.n.term)), same_state(c, A.S0, R.S)))


# ------------------------------------------------------------------ bulk node operations
def _edges_untouched(c, S, S0):
    return z3.And(S.ek == S0.ek, S.eak == S0.eak, net_same(c, S, S0),
                  c.forall(["id"], lambda e: z3.Implies(sel(S0.ek, e), sel(S.E, e) == sel(S0.E, e))),
                  edge_attrs_same_on(c, S, S0))


def _nodes_only_added(c, S, S0):
    return z3.And(c.subset(S0.nk, S.nk),
                  c.forall(["id"], lambda n: z3.Implies(sel(S.nk, n), sel(S.N, n) == z3.If(sel(S0.nk, n), sel(S0.N, n), c.EMPTY))))


def _anf_inv(c, A, K):
    S, S0 = K.S, A.S0
    return z3.And(UInv(c, S), Fresh(c, S), _edges_untouched(c, S, S0), _nodes_only_added(c, S, S0))


from contracts.common import setter_loop, setter_post, anf_post, nodes_of  # noqa: E402


def _anf_groups(c, A, K):
    S, S0 = K.S, A.S0
    return [G("struct", ("C01",), UInv(c, S)), G("fresh", ("C01", "C04"), z3.And(Fresh(c, S), _edges_untouched(c, S, S0))),
            G("frame", ("C05",), z3.And(_nodes_only_added(c, S, S0), rec_eq(c, A.attr.get()[0], A.attr.get()[1], A.kw0["attr"][0], A.kw0["attr"][1]))),
            G("node-set", ("C05", "C16"), S.nk == c.union(S0.nk, nodes_of(c, K.done)))]


s = std(contract(H + "add_nodes_from", [("self", "net:H"), ("nodes_for_adding", "val"), ("attr", "kwattr")]))
s.loop("for n in nodes_for_adding", _anf_groups, post=anf_post)
s.ens_all("edges-untouched", ("C04", "C05"), lambda c, A, R: _edges_untouched(c, R.S, A.S0))
s.ens_all("nodes-only-added", ("C05",), lambda c, A, R: _nodes_only_added(c, R.S, A.S0))
s.ens("node-set", ("C05", "C16"), lambda c, A, R: z3.Implies(z3.Not(c.one_shot(A.nodes_for_adding.term)),
                                                           R.S.nk == c.union(A.S0.nk, nodes_of(c, c.content(A.nodes_for_adding.term)))))


def _some(c, A, pred):
    t = A.nodes_for_adding.term
    return c.exists(["id"], lambda x: z3.And(sel(c.content(t), x), pred(x)))


s.exc("XGIError", "only-for-a-None-node", ("C05",), lambda c, A, R: _some(c, A, lambda x: z3.Or(x == c.NONE, z3.Not(c.hashable(x)))))
s.exc("TypeError", "only-for-bad-elements", ("C05",), lambda c, A, R: z3.Or(
    z3.Not(c.iterable(A.nodes_for_adding.term)), _some(c, A, lambda x: z3.Not(c.hashable(x)))))
s.exc("ValueError", "only-for-bad-elements", ("C05",), lambda c, A, R: _some(c, A, lambda x: z3.Not(c.hashable(x))))


def _only_removed(c, S, S0):
    """Nothing is added or grown: keys shrink, member sets shrink, attribute records of survivors stay."""
    return z3.And(c.subset(S.nk, S0.nk), c.subset(S.ek, S0.ek), net_same(c, S, S0),
                  c.forall(["id"], lambda e: z3.Implies(sel(S.ek, e), c.subset(sel(S.E, e), sel(S0.E, e)))),
                  c.forall(["id"], lambda n: z3.Implies(sel(S.nk, n), c.subset(sel(S.N, n), sel(S0.N, n)))),
                  node_attrs_same_on(c, S, S0), edge_attrs_same_on(c, S, S0))


def _untouched_edges_kept(c, S, S0, D):
    """Edges none of whose members is in D are still there with the same members."""
    return c.forall(["id"], lambda f: z3.Implies(z3.And(sel(S0.ek, f), c.inter(sel(S0.E, f), D) == c.EMPTY),
                                                 z3.And(sel(S.ek, f), sel(S.E, f) == sel(S0.E, f))))


def _rnf_inv(c, A, K):
    S, S0 = K.S, A.S0
    return z3.And(UInv(c, S), Fresh(c, S), _only_removed(c, S, S0), UInv(c, S0),
                  c.forall(["id"], lambda n: z3.Implies(sel(K.done, n), z3.Not(sel(S.nk, n)))),
                  c.forall(["id"], lambda n: z3.Implies(z3.And(sel(S0.nk, n), z3.Not(sel(K.done, n))), sel(S.nk, n))),
                  _untouched_edges_kept(c, S, S0, K.done))


def frozen_exc(s):
    """A frozen instance shadows its direct mutators: a method that calls one of them raises XGIError."""
    s.exc("XGIError", "only-when-frozen", ("C18",), lambda c, A, R: A.S0.shadow.any())
    return s


s = std(contract(H + "remove_nodes_from", [("self", "net:H"), ("nodes", "val"), ("strong", "bool", False), ("remove_empty", "bool", True)]))
s.loop("for n in nodes", _rnf_inv)
s.ens_all("only-removes", ("C05",), lambda c, A, R: _only_removed(c, R.S, A.S0))
s.ens("listed-nodes-gone", ("C05",), lambda c, A, R: c.forall(["id"], lambda n: z3.Implies(
    z3.And(sel(c.content(A.nodes.term), n), z3.Not(c.one_shot(A.nodes.term))), z3.Not(sel(R.S.nk, n)))))
s.ens("node-set", ("C05", "C19"), lambda c, A, R: z3.Implies(z3.Not(c.one_shot(A.nodes.term)), R.S.nk == c.diff(A.S0.nk, c.content(A.nodes.term))))
s.ens("untouched-edges-kept", ("C05", "C19"), lambda c, A, R: z3.Implies(
    z3.Not(c.one_shot(A.nodes.term)), _untouched_edges_kept(c, R.S, A.S0, c.content(A.nodes.term))))
s.exc("TypeError")
frozen_exc(s)


def _ref_exact(c, S, S0, D):
    """Exactly the edges in D are gone and the others keep their members (memberships then follow from UInv)."""
    return z3.And(c.forall(["id"], lambda f: sel(S.ek, f) == z3.And(sel(S0.ek, f), z3.Not(sel(D, f)))),
                  c.forall(["id"], lambda f: z3.Implies(sel(S.ek, f), sel(S.E, f) == sel(S0.E, f))))


def _ref_inv(c, A, K):
    S, S0 = K.S, A.S0
    return z3.And(UInv(c, S), Fresh(c, S), _only_removed(c, S, S0), S.nk == S0.nk, _ref_exact(c, S, S0, K.done))


def _ref_inner(c, A, K):
    S, S0 = K.S, A.S0
    e = K.outer.x
    return z3.And(
        c.forall(["id", "id"], lambda n, f: z3.Implies(f != e, z3.And(sel(S.nk, n), sel(S.N, n, f)) == z3.And(sel(S.ek, f), sel(S.E, f, n)))),
        c.forall(["id"], lambda n: z3.And(sel(S.nk, n), sel(S.N, n, e)) == z3.And(sel(S.E, e, n), z3.Not(sel(K.done, n)))),
        c.forall(["id"], lambda n: z3.Implies(sel(S.E, e, n), sel(S.nk, n))),
        K.content == sel(S.E, e), sel(S.ek, e),
        S.nk == S.nak, S.ek == S.eak, z3.Not(sel(S.nk, c.NONE)), z3.Not(sel(S.ek, c.NONE)),
        Fresh(c, S), _only_removed(c, S, S0), S.nk == S0.nk, _ref_exact(c, S, S0, K.outer.done))


s = std(contract(H + "remove_edges_from", [("self", "net:H"), ("ebunch", "val")]))
s.loop("for idx in ebunch", _ref_inv)
s.loop("for node in self._edge[idx].copy()", _ref_inner)
s.ens_all("only-removes", ("C05",), lambda c, A, R: z3.And(_only_removed(c, R.S, A.S0), R.S.nk == A.S0.nk))
s.ens("effect", ("C05", "C19"), lambda c, A, R: z3.Implies(z3.Not(c.one_shot(A.ebunch.term)), _ref_exact(c, R.S, A.S0, c.content(A.ebunch.term))))
s.exc("TypeError")
s.exc("IDNotFound")


# ------------------------------------------------------------------ attribute setters
def _structure_same(c, S, S0):
    return z3.And(S.nk == S0.nk, S.ek == S0.ek, S.nak == S0.nak, S.eak == S0.eak, net_same(c, S, S0),
                  c.forall(["id"], lambda n: z3.Implies(sel(S0.nk, n), sel(S.N, n) == sel(S0.N, n))),
                  c.forall(["id"], lambda e: z3.Implies(sel(S0.ek, e), sel(S.E, e) == sel(S0.E, e))))


def _sna_inv(c, A, K):
    S, S0 = K.S, A.S0
    return z3.And(UInv(c, S0), Fresh(c, S0), _structure_same(c, S, S0), edge_attrs_same_on(c, S, S0))


s = std(contract(H + "set_node_attributes", [("self", "net:H"), ("values", "val"), ("name", "val", None)]))
s.loop("for n, v in values.items()", setter_loop("node", "dv", _sna_inv))
s.loop("for n in self", setter_loop("node", "const", _sna_inv))
s.loop("for n, d in values.items()", setter_loop("node", "dd", _sna_inv))
s.ens("documented-effect", ("C05",), setter_post("node"))
s.ens_all("structure-unchanged", ("C05",), lambda c, A, R: z3.And(_structure_same(c, R.S, A.S0), edge_attrs_same_on(c, R.S, A.S0)))
s.exc("XGIError")
s.exc("TypeError")


def _sea_inv(c, A, K):
    S, S0 = K.S, A.S0
    return z3.And(UInv(c, S0), Fresh(c, S0), _structure_same(c, S, S0), node_attrs_same_on(c, S, S0))


s = std(contract(H + "set_edge_attributes", [("self", "net:H"), ("values", "val"), ("name", "val", None)]))
s.loop("for e, value in values.items()", setter_loop("edge", "dv", _sea_inv))
s.loop("for e in self._edge", setter_loop("edge", "const", _sea_inv))
s.loop("for e, d in values.items()", setter_loop("edge", "dd", _sea_inv))
s.ens("documented-effect", ("C05",), setter_post("edge"))
s.ens_all("structure-unchanged", ("C05",), lambda c, A, R: z3.And(_structure_same(c, R.S, A.S0), node_attrs_same_on(c, R.S, A.S0)))
s.exc("XGIError")
s.exc("TypeError")
s.exc("ValueError")


# ------------------------------------------------------------------ double_edge_swap
def _des_effect(c, A, R):
    S, S0 = R.S, A.S0
    n1, n2, e1, e2 = A.n_id1.term, A.n_id2.term, A.e_id1.term, A.e_id2.term
    return z3.And(
        S.nk == S0.nk, S.ek == S0.ek, attrs_same(c, S, S0), net_same(c, S, S0),
        c.forall(["id"], lambda n: z3.Implies(sel(S.nk, n), c.card(sel(S.N, n)) == c.card(sel(S0.N, n)))),
        c.forall(["id"], lambda e: z3.Implies(sel(S.ek, e), c.card(sel(S.E, e)) == c.card(sel(S0.E, e)))),
        c.forall(["id"], lambda n: z3.Implies(z3.And(sel(S.nk, n), n != n1, n != n2), sel(S.N, n) == sel(S0.N, n))),
        c.forall(["id"], lambda e: z3.Implies(z3.And(sel(S.ek, e), e != e1, e != e2), sel(S.E, e) == sel(S0.E, e))),
        z3.Implies(z3.And(e1 != e2, n1 != n2), z3.And(
            sel(S.E, e1) == c.add(c.rem(sel(S0.E, e1), n1), n2), sel(S.E, e2) == c.add(c.rem(sel(S0.E, e2), n2), n1),
            sel(S.N, n1) == c.add(c.rem(sel(S0.N, n1), e1), e2), sel(S.N, n2) == c.add(c.rem(sel(S0.N, n2), e2), e1))))


s = std(contract(H + "double_edge_swap", [("self", "net:H"), ("n_id1", "val"), ("n_id2", "val"), ("e_id1", "val"), ("e_id2", "val")]))
s.ens("effect", ("C05",), _des_effect)
s.exc("IDNotFound", "state-unchanged", ("C05",), lambda c, A, R: same_state(c, A.S0, R.S))
s.exc("XGIError", "state-unchanged", ("C05",), lambda c, A, R: same_state(c, A.S0, R.S))
s.exc("TypeError", "state-unchanged", ("C05",), lambda c, A, R: same_state(c, A.S0, R.S))


# ------------------------------------------------------------------ update
s = std(contract(H + "update", [("self", "net:H"), ("edges", "val", None), ("nodes", "val", None)]))
s.variants = [{"self": "net:H"}, {"self": "net:SC"}]
# on a simplicial complex the inherited update() dispatches to SimplicialComplex.add_edges_from, which needs (and keeps) the
# simplicial invariants
from pyvc.spec import SClosed, SDupFree, SNonEmpty  # noqa: E402
_sc_inv = lambda c, S: z3.And(SNonEmpty(c, S), SDupFree(c, S))
s.req("SLite-on-SC", lambda c, A: _sc_inv(c, A.S0) if A.S0.kind == "SC" else z3.BoolVal(True), ("C03",))
s.req("Closed-on-SC", lambda c, A: SClosed(c, A.S0) if A.S0.kind == "SC" else z3.BoolVal(True), ("C03",))
s.ens_all("existing-edges-kept", ("C04",), lambda c, A, R: edges_kept(c, A.S0, R.S))
s.ens_all("SLite-on-SC", ("C03",), lambda c, A, R: _sc_inv(c, R.S) if A.S0.kind == "SC" else z3.BoolVal(True))
s.ens("Closed-on-SC", ("C03",), lambda c, A, R: SClosed(c, R.S) if A.S0.kind == "SC" else z3.BoolVal(True))
s.ens_all("frozen-unchanged", ("C18",), lambda c, A, R: z3.Implies(A.S0.frozen, same_tables(c, A.S0, R.S)))
s.raises_any = True


# ------------------------------------------------------------------ add_edges_from
def _nodes_grow(c, S, S0):
    """Old nodes stay, their memberships only grow, their attribute records are untouched."""
    return z3.And(c.subset(S0.nk, S.nk),
                  c.forall(["id"], lambda n: z3.Implies(sel(S0.nk, n), c.subset(sel(S0.N, n), sel(S.N, n)))),
                  node_attrs_same_on(c, S, S0), S.neth == S0.neth, S.netv == S0.netv)


def _aef_outer(c, A, K):
    S, S0 = K.S, A.S0
    return z3.And(UInv(c, S), Fresh(c, S), edges_kept(c, S0, S), _nodes_grow(c, S, S0), S.uid >= S0.uid)


def _aef_inner(c, A, K):
    """Edge e = idx is stored with its full member set; memberships registered for `done` only."""
    S, S0 = K.S, A.S0
    e = K.ex.tid(K.L("idx"))
    D = K.done
    return z3.And(
        c.forall(["id", "id"], lambda n, f: z3.Implies(f != e, z3.And(sel(S.nk, n), sel(S.N, n, f)) == z3.And(sel(S.ek, f), sel(S.E, f, n)))),
        c.forall(["id"], lambda n: z3.And(sel(S.nk, n), sel(S.N, n, e)) == sel(D, n)),
        K.content == sel(S.E, e), sel(S.ek, e), z3.Not(sel(S.eak, e)), z3.Not(sel(S0.ek, e)), e != c.NONE,
        z3.Not(sel(sel(S.E, e), c.NONE)),
        S.nk == S.nak, c.forall(["id"], lambda f: sel(S.eak, f) == z3.And(sel(S.ek, f), f != e)),
        z3.Not(sel(S.nk, c.NONE)), z3.Not(sel(S.ek, c.NONE)),
        c.forall(["id"], lambda f: z3.Implies(z3.And(sel(S.ek, f), f != e, c.intlike(f)), c.int_of(f) < S.uid)),
        edges_kept(c, S0, S), _nodes_grow(c, S, S0), S.uid >= S0.uid)


def _aef_inner_auto(c, A, K):
    """Formats 1-4: as above, and an automatic id (formats 1, 3) is already below the counter."""
    e = K.ex.tid(K.L("idx"))
    auto = z3.Or(K.ex.truth(K.L("format1")), K.ex.truth(K.L("format3")))
    return z3.And(_aef_inner(c, A, K), z3.Implies(z3.And(auto, c.intlike(e)), c.int_of(e) < K.S.uid))


s = std(contract(H + "add_edges_from", [("self", "net:H"), ("ebunch_to_add", "val"), ("attr", "kwattr")]))
s.loop("for idx, members in ebunch_to_add.items()", _aef_outer)
s.loop("for n in members", _aef_inner)
s.loop("while True", _aef_outer)
s.loop("for n in members", _aef_inner_auto)
s.ens_all("existing-edges-kept", ("C04",), lambda c, A, R: edges_kept(c, A.S0, R.S))
s.ens_all("nodes-grow", ("C05",), lambda c, A, R: _nodes_grow(c, R.S, A.S0))
for e_ in ("XGIError", "TypeError", "ValueError", "IndexError", "UnboundLocalError"):
    s.exc(e_)


# ------------------------------------------------------------------ random_edge_shuffle
def _res_common(c, A, K):
    """Facts shared by the two membership loops of random_edge_shuffle (e1, e2 are the chosen edge
    ids; B = the nodes in both, already removed from the two stored member sets)."""
    S, S0 = K.S, A.S0
    e1, e2 = K.ex.tid(K.L("e_id1")), K.ex.tid(K.L("e_id2"))
    B = K.ex.tset(K.L("nodes_both"))
    X1 = K.ex.tset(K.L("e1_new"))
    X2 = K.ex.tset(K.L("e2_new"))
    A1, A2 = c.diff(sel(S0.E, e1), B), c.diff(sel(S0.E, e2), B)
    return S, S0, e1, e2, B, X1, X2, A1, A2


def _res_entry_facts(c, A, K):
    S, S0, e1, e2, B, X1, X2, A1, A2 = _res_common(c, A, K)
    U = c.union(A1, A2)
    # e1 == e2 (the same id passed twice) degenerates: both member sets are emptied, nothing moves
    return z3.And(
        UInv(c, S0), Fresh(c, S0), sel(S0.ek, e1), sel(S0.ek, e2),
        B == c.inter(sel(S0.E, e1), sel(S0.E, e2)),
        c.subset(X1, U), X2 == c.diff(U, X1), c.card(X1) == c.card(A1),
        S.nk == S0.nk, S.ek == S0.ek, attrs_same(c, S, S0), net_same(c, S, S0),
        sel(S.E, e1) == A1, sel(S.E, e2) == A2,
        c.forall(["id"], lambda f: z3.Implies(z3.And(sel(S0.ek, f), f != e1, f != e2), sel(S.E, f) == sel(S0.E, f))))


def _res_loop1(c, A, K):
    S, S0, e1, e2, B, X1, X2, A1, A2 = _res_common(c, A, K)
    D = K.done
    return [G("inv", ("C01", "C04", "C05"), z3.And(
        _res_entry_facts(c, A, K), K.content == c.inter(X1, A2),
        c.forall(["id"], lambda n: z3.Implies(sel(S.nk, n), sel(S.N, n) == z3.If(sel(D, n), c.add(c.rem(sel(S0.N, n), e2), e1), sel(S0.N, n))))))]


def _res_loop2(c, A, K):
    S, S0, e1, e2, B, X1, X2, A1, A2 = _res_common(c, A, K)
    D = K.done
    C1 = c.inter(X1, A2)
    base = lambda n: z3.If(sel(C1, n), c.add(c.rem(sel(S0.N, n), e2), e1), sel(S0.N, n))
    return [G("inv", ("C01", "C04", "C05"), z3.And(
        _res_entry_facts(c, A, K), K.content == c.inter(X2, A1),
        c.forall(["id"], lambda n: z3.Implies(sel(S.nk, n), sel(S.N, n) == z3.If(sel(D, n), c.add(c.rem(base(n), e1), e2), base(n))))))]


def _res_effect(c, A, R):
    S, S0 = R.S, A.S0
    return z3.And(S.nk == S0.nk, S.ek == S0.ek, attrs_same(c, S, S0), net_same(c, S, S0),
                  c.forall(["id"], lambda e: z3.Implies(sel(S.ek, e), c.card(sel(S.E, e)) == c.card(sel(S0.E, e)))))


s = std(contract(H + "random_edge_shuffle", [("self", "net:H"), ("e_id1", "val", None), ("e_id2", "val", None)]))
s.loop("for n_id in e1_new & e2", _res_loop1)
s.loop("for n_id in e2_new & e1", _res_loop2)
s.ens("ids-attrs-sizes-kept", ("C05",), _res_effect)
s.timeout_ms = 60000
s.exc("ValueError", "fewer-than-two-edges", ("C05",), lambda c, A, R: z3.And(c.card(A.S0.ek) < 2, same_state(c, A.S0, R.S)))
s.exc("IDNotFound", "missing-edge", ("C05",), lambda c, A, R: same_state(c, A.S0, R.S))
s.exc("TypeError", "unhashable-id", ("C05",), lambda c, A, R: same_state(c, A.S0, R.S))


# ------------------------------------------------------------------ merge_duplicate_edges (value computed by abstracted local code)
def _mde_loop(c, A, K):
    S, S0 = K.S, A.S0
    return [G("struct", ("C01",), UInv(c, S)), G("fresh", ("C01", "C04"), z3.And(Fresh(c, S), S.uid >= S0.uid)),
            G("frame", ("C05", "C18"), z3.And(same_tables(c, S0, S), S.neth == S0.neth, S.netv == S0.netv))]


s = std(contract(H + "merge_duplicate_edges", [("self", "net:H"), ("rename", "val", "first"), ("merge_rule", "val", "first"), ("multiplicity", "val", None)]))
s.loop("for members, dup_ids in hashes.items()", _mde_loop)
s.ens_all("nodes-and-node-attrs-kept", ("C05",), lambda c, A, R: z3.And(R.S.neth == A.S0.neth, R.S.netv == A.S0.netv, node_attrs_same_on(c, R.S, A.S0)))
s.raises_any = True
s.notes = "the grouping / renaming / attribute-merging value computation is abstracted (net-pure local code); only the frame, UInv and Fresh are proved, the value is covered by the bounded stand-in"
from contracts.freeze import frozen_clauses  # noqa: E402
frozen_clauses(s)


s = std(contract(H + "add_weighted_edges_from", [("self", "net:H"), ("ebunch", "val"), ("weight", "val", "weight"), ("attr", "kwattr")]))
s.ens_all("existing-edges-kept", ("C04",), lambda c, A, R: edges_kept(c, A.S0, R.S))
s.raises_any = True
frozen_clauses(s)


# ------------------------------------------------------------------ in-place helpers (C01: "cleanup, duplicate merging, relabelling, largest-component restriction")
UT = "xgi/utils/utilities.py::"
CN = "xgi/algorithms/connected.py::"

s = contract(CN + "largest_connected_hypergraph", [("H", "net:H"), ("in_place", "bool", False)])
s.modifies = ["H"]
s.req("UInv", lambda c, A: UInv(c, A.snap0["H"]), ("C01",))
s.req("Fresh", lambda c, A: Fresh(c, A.snap0["H"]), ("C01", "C04"))
s.req("in-place", lambda c, A: A.in_place.term, ("C01",))
s.ens_all("UInv", ("C01",), lambda c, A, R: UInv(c, R.snap["H"]))
s.ens_all("Fresh", ("C01", "C04"), lambda c, A, R: Fresh(c, R.snap["H"]))
s.ens_all("only-removes", ("C05",), lambda c, A, R: _only_removed(c, R.snap["H"], A.snap0["H"]))
s.ens_all("frozen-unchanged", ("C18",), lambda c, A, R: z3.Implies(A.snap0["H"].frozen, same_tables(c, A.snap0["H"], R.snap["H"])))
s.raises_any = True
s.notes = "in_place=True path; the component computation is abstracted (net-pure), the only write is remove_nodes_from"

s = contract(UT + "convert_labels_to_integers", [("net", "net:H"), ("label_attribute", "val", "label"), ("in_place", "bool", False)])
s.modifies = ["net"]
s.req("UInv", lambda c, A: UInv(c, A.snap0["net"]), ("C01",))
s.req("Fresh", lambda c, A: Fresh(c, A.snap0["net"]), ("C01", "C04"))
s.req("in-place", lambda c, A: A.in_place.term, ("C01",))
s.ens_all("UInv", ("C01",), lambda c, A, R: UInv(c, R.snap["net"]))
s.ens_all("Fresh", ("C01", "C04"), lambda c, A, R: Fresh(c, R.snap["net"]))
s.ens_all("frozen-unchanged", ("C18",), lambda c, A, R: z3.Implies(A.snap0["net"].frozen, same_tables(c, A.snap0["net"], R.snap["net"])))
s.raises_any = True
s.notes = "in_place=True path on an undirected hypergraph; the relabelling maps are abstracted, the writes are clear / add_nodes_from / set_*_attributes / add_edges_from"


s = std(contract(H + "cleanup", [("self", "net:H"), ("isolates", "bool", False), ("singletons", "bool", False), ("multiedges", "bool", False),
                                 ("connected", "bool", True), ("relabel", "bool", True), ("in_place", "bool", True)]))
s.req("in-place", lambda c, A: A.in_place.term, ("C01",))
s.raises_any = True
s.ens_all("frozen-unchanged", ("C18",), lambda c, A, R: z3.Implies(A.S0.frozen, same_tables(c, A.S0, R.S)))



def _no_singletons(c, S):
    return c.forall(["id"], lambda e: z3.Implies(sel(S.ek, e), c.card(sel(S.E, e)) != 1))


def _no_isolates(c, S):
    return c.forall(["id"], lambda n: z3.Implies(sel(S.nk, n), sel(S.N, n) != c.EMPTY))


_plain = lambda A: z3.And(z3.Not(A.connected.term), z3.Not(A.relabel.term))
s.ens("no-singleton-edges-left", ("C19", "C05"), lambda c, A, R: z3.Implies(z3.And(_plain(A), z3.Not(A.singletons.term)), _no_singletons(c, R.S)))
s.ens("no-isolated-nodes-left", ("C19", "C05"), lambda c, A, R: z3.Implies(z3.And(_plain(A), z3.Not(A.isolates.term)), _no_isolates(c, R.S)))
s.notes = ("in_place=True path: UInv and Fresh follow from the contracts of the five in-place steps; with connected=False and relabel=False "
           "the removal guarantees (no singleton edge / no isolated node left) are proved from the effect contracts of remove_edges_from and "
           "remove_nodes_from and the assumed view accessors singletons() / isolates(); with connected / relabel the guarantees are covered by "
           "the bounded stand-in only")
