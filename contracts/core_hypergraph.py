"""Contracts: xgi/core/hypergraph.py (undirected hypergraph).  Properties C01, C04, C05, C18."""
import z3

from pyvc.spec import *

H = "xgi/core/hypergraph.py::Hypergraph."
STRUCT = ("C01",)


def std(s, kinds=("H",)):
    """UInv in, UInv on every exit; Fresh in, Fresh on every exit."""
    s.req("UInv", lambda c, A: UInv(c, A.S0))
    s.req("Fresh", lambda c, A: Fresh(c, A.S0))
    s.ens_all("UInv", ("C01",), lambda c, A, R: UInv(c, R.S))
    s.ens_all("Fresh", ("C04",), lambda c, A, R: Fresh(c, R.S))
    return s


# ------------------------------------------------------------------ add_node
s = std(contract(H + "add_node", [("self", "net:H"), ("node", "val"), ("attr", "kwattr")]))
s.exc("XGIError", "none-node", ("C05",), lambda c, A, R: z3.And(A.node.term == c.NONE, same_state(c, A.S0, R.S)))
s.exc("TypeError", "unhashable", ("C05",), lambda c, A, R: z3.And(z3.Not(c.hashable(A.node.term)), same_state(c, A.S0, R.S)))
s.ens("effect", ("C05",), lambda c, A, R: z3.And(
    R.S.nk == c.add(A.S0.nk, A.node.term), R.S.ek == A.S0.ek,
    c.forall(["id"], lambda e: z3.Implies(sel(A.S0.ek, e), sel(R.S.E, e) == sel(A.S0.E, e))),
    c.forall(["id"], lambda n: z3.Implies(sel(A.S0.nk, n), sel(R.S.N, n) == sel(A.S0.N, n))),
    z3.Implies(z3.Not(sel(A.S0.nk, A.node.term)), sel(R.S.N, A.node.term) == c.EMPTY),
    R.S.uid == A.S0.uid))


# ------------------------------------------------------------------ add_edge
def _uid_term(c, K):
    return K.ex.tid(K.L("uid"))


def _add_edge_loop(c, A, K):
    S, S0 = K.S, A.S0
    u = _uid_term(c, K)
    done = K.done
    auto = A.idx.term == c.NONE
    return z3.And(
        c.forall(["id", "id"], lambda n, e: z3.And(sel(S.nk, n), sel(S.N, n, e)) == z3.And(sel(S.ek, e), sel(S.E, e, n))),
        S.nk == S.nak, S.eak == S0.eak, S.ek == c.add(S0.ek, u), z3.Not(sel(S0.ek, u)), u != c.NONE,
        z3.Not(sel(S.nk, c.NONE)),
        sel(S.E, u) == done,
        K.content == K.ex.tset(K.L("members")),
        S.nk == c.union(S0.nk, done),
        c.forall(["id"], lambda e: z3.Implies(sel(S0.ek, e), z3.And(sel(S.E, e) == sel(S0.E, e)))),
        c.forall(["id"], lambda e: z3.Implies(sel(S0.eak, e), z3.And(sel(S.EAh, e) == sel(S0.EAh, e), sel(S.EAv, e) == sel(S0.EAv, e)))),
        c.forall(["id"], lambda n: z3.Implies(sel(S.nk, n), sel(S.N, n) == z3.If(
            sel(S0.nk, n), z3.If(sel(done, n), c.add(sel(S0.N, n), u), sel(S0.N, n)), c.single(u)))),
        c.forall(["id"], lambda n: z3.Implies(sel(S0.nak, n), z3.And(sel(S.NAh, n) == sel(S0.NAh, n), sel(S.NAv, n) == sel(S0.NAv, n)))),
        S.uid == z3.If(auto, S0.uid + 1, S0.uid),
        z3.Implies(auto, u == c.of_int(S0.uid)),
        z3.Implies(z3.Not(auto), u == A.idx.term),
        S.neth == S0.neth, S.netv == S0.netv,
    )


s = std(contract(H + "add_edge", [("self", "net:H"), ("members", "val"), ("idx", "val"), ("attr", "kwattr")]))
s.loop("for node in members", _add_edge_loop)
s.ens_all("existing-edges-kept", ("C04",), lambda c, A, R: edges_kept(c, A.S0, R.S))
s.ens("refuse-existing-id", ("C04",), lambda c, A, R: z3.Implies(sel(A.S0.ek, A.idx.term), z3.And(same_state(c, A.S0, R.S), R.S.warned)))
s.exc("TypeError")
s.exc("XGIError")
