import warnings, xgi, numpy as np, itertools
warnings.simplefilter("ignore")
bad=[n for n in range(1,200) if sum(1.0/n for _ in range(n))>1.0]
print('n with sum(1/n)*n>1:',bad[:10])
if bad:
    n=bad[0]; H=xgi.Hypergraph([[3*i,3*i+1,3*i+2] for i in range(n)])
    print('face_edit_simpliciality',xgi.face_edit_simpliciality(H), 'mean_face_edit_distance',xgi.mean_face_edit_distance(H))
H=xgi.Hypergraph([[1,2]]); H.add_edge([]); 
try: print('maximal w/ empty edge', H.edges.maximal())
except Exception as e: print('maximal w/ empty edge RAISED',type(e).__name__,e)
# local clustering permuted ids
H1=xgi.Hypergraph({0:[1,2,3],1:[3,4],2:[4,5,1]}); H2=xgi.Hypergraph({1:[1,2,3],2:[3,4],0:[4,5,1]})
print('lcc',xgi.local_clustering_coefficient(H1)); print('lcc perm',xgi.local_clustering_coefficient(H2))
# HSBM p=1
try: xgi.uniform_HSBM(4,2,np.ones((2,2)),[2,2])
except Exception as e: print('HSBM p=1 RAISED',type(e).__name__,e)
# from_bipartite_graph order
import networkx as nx
G=nx.Graph(); G.add_node('e',bipartite=1); G.add_node('n',bipartite=0); G.add_edge('e','n')
H=xgi.from_bipartite_graph(G); print('from_bipartite_graph', dict(H._edge), dict(H._node))
# SC via hif loses net attrs
S=xgi.SimplicialComplex([[1,2,3]]); S['name']='x'; print('hif SC attrs', xgi.from_hif_dict(xgi.to_hif_dict(S))._net_attr)
# frozen double_edge_swap
H=xgi.Hypergraph([[1,2,3],[3,4]]); H.freeze(); H.double_edge_swap(1,4,0,1); print('frozen swap', H.edges.members())
D=xgi.DiHypergraph([([1],[2])]); D.freeze(); D.add_node_to_edge(0,5,'in'); print('frozen DiH add_node_to_edge', dict(D._edge))
# spectral
H=xgi.random_hypergraph(30,[0.1,0.01],seed=1)
H.cleanup()
a=xgi.spectral_clustering(H,2,seed=3); np.random.random(5); b=xgi.spectral_clustering(H,2,seed=3); print('spectral same?',a==b)
