import ast, sys, collections
files = {
 'xgi/core/hypergraph.py':None,'xgi/core/dihypergraph.py':None,'xgi/core/simplicialcomplex.py':None,'xgi/core/views.py':None,
 'xgi/core/globalviews.py':None,'xgi/utils/utilities.py':['IDDict','dual_dict','powerset','update_uid_counter','find_triangles','subfaces','convert_labels_to_integers','geometric','min_where'],
 'xgi/stats/__init__.py':['IDStat','MultiIDStat','dispatch_stat','dispatch_many_stats'],'xgi/stats/nodestats.py':['attrs','degree','average_neighbor_degree'],
 'xgi/stats/edgestats.py':['attrs','order','size'],'xgi/stats/dinodestats.py':None,'xgi/stats/diedgestats.py':None,
 'xgi/algorithms/connected.py':None,'xgi/algorithms/clustering.py':None,'xgi/algorithms/properties.py':None,'xgi/algorithms/simpliciality.py':None,
 'xgi/convert/hyperedges.py':None,'xgi/convert/bipartite_edges.py':None,'xgi/convert/hif_dict.py':None,'xgi/convert/hypergraph_dict.py':None,
 'xgi/convert/higher_order_network.py':None,'xgi/convert/simplex.py':None,'xgi/convert/incidence.py':None,'xgi/convert/bipartite_graph.py':None,'xgi/convert/pandas.py':None,
 'xgi/convert/line_graph.py':None,'xgi/convert/encapsulation_dag.py':None,
 'xgi/generators/random.py':None,'xgi/generators/uniform.py':None,'xgi/generators/classic.py':None,'xgi/generators/lattice.py':None,'xgi/generators/simple.py':None,'xgi/generators/simplicial_complexes.py':None,'xgi/generators/randomizing.py':None,
 'xgi/readwrite/hif.py':None,'xgi/readwrite/json.py':None,'xgi/readwrite/edgelist.py':None,'xgi/readwrite/bipartite.py':None,'xgi/readwrite/incidence.py':None,
 'xgi/linalg/hypergraph_matrix.py':None,'xgi/linalg/laplacian_matrix.py':None,'xgi/linalg/hodge_matrix.py':None,
}
stmt=collections.Counter(); expr=collections.Counter(); calls=collections.Counter()
odd=[]
for f,only in files.items():
    t=ast.parse(open('/repo/'+f).read())
    for top in t.body:
        if isinstance(top,(ast.FunctionDef,ast.ClassDef)) and (only is None or top.name in only):
            for n in ast.walk(top):
                if isinstance(n,ast.stmt): stmt[type(n).__name__]+=1
                elif isinstance(n,ast.expr): expr[type(n).__name__]+=1
                if isinstance(n,ast.Call):
                    fn=n.func
                    name = fn.attr if isinstance(fn,ast.Attribute) else (fn.id if isinstance(fn,ast.Name) else type(fn).__name__)
                    kind = '.' if isinstance(fn,ast.Attribute) else ''
                    calls[kind+name]+=1
                if isinstance(n,(ast.With,ast.Global,ast.Nonlocal,ast.AsyncFunctionDef,ast.Try,ast.Starred,ast.Yield,ast.YieldFrom,ast.Lambda,ast.While,ast.NamedExpr)) :
                    odd.append((f,top.name,type(n).__name__,n.lineno))
print('STMT',dict(stmt)); print('EXPR',dict(expr))
print('CALLS', sorted(calls.items(), key=lambda kv:-kv[1]))
import itertools
for k,g in itertools.groupby(sorted(odd,key=lambda o:o[2]), key=lambda o:o[2]):
    g=list(g); print(k,len(g),[(a.split('/')[-1],b,d) for a,b,c,d in g][:40])
