import Mathlib.Combinatorics.Enumerative.DoubleCounting
open Finset
-- handshake: for a two-way consistent incidence, sum of degrees = sum of sizes
theorem handshake {V E : Type*} [DecidableEq V] [DecidableEq E] (nodes : Finset V) (edges : Finset E)
    (r : V → E → Prop) [DecidableRel r] :
    ∑ n ∈ nodes, (edges.filter (fun e => r n e)).card = ∑ e ∈ edges, (nodes.filter (fun n => r n e)).card := by
  simpa [Finset.bipartiteAbove, Finset.bipartiteBelow] using
    (Finset.sum_card_bipartiteAbove_eq_sum_card_bipartiteBelow (s := nodes) (t := edges) r)
