import z3, time, itertools
Id, ids = z3.EnumSort('Id', ['i0','i1','i2','i3'])
SetId = z3.ArraySort(Id, z3.BoolSort())
def FA(vs, f):  # ground expansion
    return z3.And([f(*c) for c in itertools.product(ids, repeat=vs)])
def st(p):
    return dict(nk=z3.Const(p+'nk',SetId), ek=z3.Const(p+'ek',SetId), nak=z3.Const(p+'nak',SetId), eak=z3.Const(p+'eak',SetId),
                N=z3.Const(p+'N',z3.ArraySort(Id,SetId)), E=z3.Const(p+'E',z3.ArraySort(Id,SetId)))
def inv(s, skip):
    return z3.And(FA(2, lambda n,e: z3.And(s['nk'][n], s['N'][n][e]) == z3.And(s['ek'][e], s['E'][e][n])),
         FA(1, lambda n: s['nk'][n]==s['nak'][n]), FA(1, lambda e: z3.Implies(e!=skip, s['ek'][e]==s['eak'][e])))
s0 = st('a'); uid, x = z3.Consts('uid x', Id)
done = z3.Const('done', SetId); members = z3.Const('members', SetId)
def loopinv(s, done):
    return z3.And(inv(s, uid), s['ek'][uid], z3.Not(s['eak'][uid]), FA(1, lambda n: s['E'][uid][n]==done[n]))
empty = z3.K(Id, False)
nk1 = z3.If(s0['nk'][x], s0['nk'], z3.Store(s0['nk'], x, True))
N1 = z3.If(s0['nk'][x], s0['N'], z3.Store(s0['N'], x, empty))
nak1 = z3.If(s0['nk'][x], s0['nak'], z3.Store(s0['nak'], x, True))
E2 = z3.Store(s0['E'], uid, z3.Store(s0['E'][uid], x, True))
s1b = dict(nk=nk1, ek=s0['ek'], nak=nak1, eak=s0['eak'], N=N1, E=E2)
s = z3.Solver(); s.add(loopinv(s0, done), members[x], z3.Not(done[x]), z3.Not(loopinv(s1b, z3.Store(done,x,True))))
t=time.time(); r=s.check(); print('mutant ground:', r, round(time.time()-t,3))
m=s.model(); print('x=',m.eval(x),'uid=',m.eval(uid), 'nk=',[(i,m.eval(s0['nk'][i])) for i in ids])
