import warnings, xgi, traceback
warnings.simplefilter("ignore")
def chk(H):
    bad=[]
    for n,es in H._node.items():
        for e in es:
            if e not in H._edge or n not in H._edge[e]: bad.append(('n->e',n,e))
    for e,ns in H._edge.items():
        for n in ns:
            if n not in H._node or e not in H._node[n]: bad.append(('e->n',e,n))
    if set(H._node)!=set(H._node_attr): bad.append('nattr')
    if set(H._edge)!=set(H._edge_attr): bad.append('eattr')
    return bad
def t(name, f):
    try:
        r=f(); print(name,'->',r)
    except Exception as ex:
        print(name,'RAISED',type(ex).__name__,ex)
# C01
H=xgi.Hypergraph()
try: H.add_edge([3,None])
except Exception as ex: print('add_edge None raised',type(ex).__name__)
print('C01 after add_edge([3,None]):',chk(H), dict(H._edge))
H=xgi.Hypergraph(); H.add_edges_from([(iter([1,2]),'a')]); print('C01 generator members fmt2:',chk(H))
H=xgi.Hypergraph(); H.add_edges_from({'a':iter([1,2])}); print('C01 generator members fmt5:',chk(H))
H=xgi.Hypergraph()
try: H.add_edges_from([[1,None]])
except Exception as ex: print('add_edges_from None raised',type(ex).__name__)
print('  state',chk(H))
H=xgi.Hypergraph([[1,2],[2,3]]); 
try: H.remove_edges_from([0,0])
except Exception as ex: print('remove twice',type(ex).__name__)
print('  state',chk(H))
# C04
H=xgi.Hypergraph(); H.add_edge([1,2],idx=0); H.add_edge([3,4]); print('C04 idx=0 then auto:',dict(H._edge), chk(H))
H=xgi.Hypergraph(); H.add_edges_from([([1,2],5),([3,4],1)]); H.add_edges_from([[7],[8],[9],[10]]);print('C04 decreasing:',dict(H._edge),chk(H))
H=xgi.Hypergraph(); H.add_node_to_edge(0,1); H.add_edge([5,6]); print('C04 add_node_to_edge:',dict(H._edge),chk(H))
# C02
D=xgi.DiHypergraph([([1,2],[3]),([3],[4])]); D.remove_node(3,strong=True); print('C02:',dict(D._node),dict(D._edge))
# C03
S=xgi.SimplicialComplex(); S.add_simplices_from([[1,2,3,4,5]],max_order=2); print('C03 maxorder sizes:',sorted(set(len(e) for e in S._edge.values())))
S=xgi.SimplicialComplex(); S.add_simplex([]); print('C03 empty simplex:',dict(S._edge))
# C18
H=xgi.Hypergraph([[1,2],[2,3]]); H.freeze(); 
t('C18 clear_edges frozen', lambda:(H.clear_edges(), H.num_edges))
# C06 aspandas order
H=xgi.Hypergraph(); H.add_nodes_from([3,1,2]); H.add_edge([3,1]); print('C06 order view',list(H.nodes),'aspandas',list(H.nodes.degree.aspandas().index),'aslist',H.nodes.degree.aslist())
# SC add_edge ignores idx
S=xgi.SimplicialComplex(); S.add_simplex([1,2],idx=0); S.add_simplex([2,3]); print('SC idx0:',dict(S._edge))
