# feasibility probe: loop-body VC of Hypergraph.add_edge over z3 arrays with quantified invariant
import z3, time
Id = z3.DeclareSort('Id')
SetId = z3.ArraySort(Id, z3.BoolSort())
def st(p):
    return dict(nk=z3.Const(p+'nk',SetId), ek=z3.Const(p+'ek',SetId), nak=z3.Const(p+'nak',SetId), eak=z3.Const(p+'eak',SetId),
                N=z3.Const(p+'N',z3.ArraySort(Id,SetId)), E=z3.Const(p+'E',z3.ArraySort(Id,SetId)))
n,e = z3.Consts('n e', Id)
def inv(s, skip_attr_edge=None):
    c = [z3.ForAll([n,e], z3.And(s['nk'][n], s['N'][n][e]) == z3.And(s['ek'][e], s['E'][e][n])),
         z3.ForAll([n], s['nk'][n]==s['nak'][n])]
    if skip_attr_edge is None:
        c.append(z3.ForAll([e], s['ek'][e]==s['eak'][e]))
    else:
        c.append(z3.ForAll([e], z3.Implies(e!=skip_attr_edge, s['ek'][e]==s['eak'][e])))
    return z3.And(c)
s0 = st('a')
uid, x = z3.Consts('uid x', Id)
done = z3.Const('done', SetId); members = z3.Const('members', SetId)
# loop invariant: inv except attr of uid, ek[uid], E[uid]==done  (pointwise), done subset members
def loopinv(s, done):
    return z3.And(inv(s, uid), s['ek'][uid], z3.Not(s['eak'][uid]), z3.ForAll([n], s['E'][uid][n]==done[n]))
# body: if x not in nk: nk[x]=True; N[x]=empty; nak[x]=True ; N[x].add(uid); E[uid].add(x)
empty = z3.K(Id, False)
nk1 = z3.If(s0['nk'][x], s0['nk'], z3.Store(s0['nk'], x, True))
N1 = z3.If(s0['nk'][x], s0['N'], z3.Store(s0['N'], x, empty))
nak1 = z3.If(s0['nk'][x], s0['nak'], z3.Store(s0['nak'], x, True))
N2 = z3.Store(N1, x, z3.Store(N1[x], uid, True))
E2 = z3.Store(s0['E'], uid, z3.Store(s0['E'][uid], x, True))
s1 = dict(nk=nk1, ek=s0['ek'], nak=nak1, eak=s0['eak'], N=N2, E=E2)
done1 = z3.Store(done, x, True)
for name,solver_tactic in [('default',None)]:
    s = z3.Solver(); s.set('timeout', 20000)
    s.add(loopinv(s0, done), members[x], z3.Not(done[x]))
    s.add(z3.Not(loopinv(s1, done1)))
    t=time.time(); r=s.check(); print('body preserves inv:', r, round(time.time()-t,2))
# mutation: forget N[x].add(uid)
s1b = dict(s1, N=N1)
s = z3.Solver(); s.set('timeout', 20000)
s.add(loopinv(s0, done), members[x], z3.Not(done[x]), z3.Not(loopinv(s1b, done1)))
t=time.time(); r=s.check(); print('mutant:', r, round(time.time()-t,2))
if r==z3.sat:
    m=s.model(); print('x=',m.eval(x),'uid=',m.eval(uid))
