# closure preservation under remove_simplex_id (supersets removed first), quantifying over set-valued S
import z3, time
Id = z3.DeclareSort('Id'); SetId = z3.ArraySort(Id, z3.BoolSort())
card = z3.Function('card', SetId, z3.IntSort())
x = z3.Const('x', Id)
def sub(A,B): return z3.ForAll([x], z3.Implies(A[x], B[x]))
ek = z3.Const('ek', SetId); E = z3.Const('E', z3.ArraySort(Id, SetId))
e, e2 = z3.Consts('e e2', Id); S = z3.Const('S', SetId)
def closed(ek,E):
    return z3.ForAll([e,S], z3.Implies(z3.And(ek[e], sub(S,E[e]), card(S)>=2), z3.Exists([e2], z3.And(ek[e2], E[e2]==S))))
def distinct(ek,E):
    return z3.ForAll([e,e2], z3.Implies(z3.And(ek[e],ek[e2],E[e]==E[e2]), e==e2))
idx = z3.Const('idx', Id)
# post-state: ek'[j] = ek[j] & j!=idx & not (E[idx] strict-subset E[j])
ek2 = z3.Const('ek2', SetId)
j = z3.Const('j', Id)
strict = lambda A,B: z3.And(sub(A,B), A!=B)
post = z3.ForAll([j], ek2[j] == z3.And(ek[j], j!=idx, z3.Not(strict(E[idx],E[j]))))
s = z3.Solver(); s.set('timeout',60000)
s.add(closed(ek,E), distinct(ek,E), ek[idx], post)
# negated goal, skolemised by hand
e0 = z3.Const('e0', Id); S0 = z3.Const('S0', SetId)
s.add(ek2[e0], sub(S0,E[e0]), card(S0)>=2, z3.ForAll([e2], z3.Not(z3.And(ek2[e2], E[e2]==S0))))
t=time.time(); print('remove closure:', s.check(), round(time.time()-t,2))
