# add_simplex: face loop preserves/establishes closure. State abstracted to the family of member sets
# F: Array(SetId->Bool) would need ids; keep ids: ek, E.  Loop over faces set FS (set of sets) with done-set D.
import z3, time
Id = z3.DeclareSort('Id'); SetId = z3.ArraySort(Id, z3.BoolSort()); SetSet = z3.ArraySort(SetId, z3.BoolSort())
card = z3.Function('card', SetId, z3.IntSort())
x = z3.Const('x', Id); e,e2 = z3.Consts('e e2', Id); S = z3.Const('S', SetId)
def sub(A,B): return z3.ForAll([x], z3.Implies(A[x], B[x]))
def has(ek,E,S): return z3.Exists([e2], z3.And(ek[e2], E[e2]==S))
def closed_except(ek,E,uid):   # closure for all simplices other than the one being added
    return z3.ForAll([e,S], z3.Implies(z3.And(ek[e], e!=uid, sub(S,E[e]), card(S)>=2), has(ek,E,S)))
def closed(ek,E): return z3.ForAll([e,S], z3.Implies(z3.And(ek[e], sub(S,E[e]), card(S)>=2), has(ek,E,S)))
ek = z3.Const('ek', SetId); E = z3.Const('E', z3.ArraySort(Id,SetId)); uid = z3.Const('uid', Id); M = z3.Const('M', SetId)
FS = z3.Const('FS', SetSet); D = z3.Const('D', SetSet)
facespec = z3.ForAll([S], FS[S] == z3.And(sub(S,M), card(S)>=2, card(S)<=card(M)-1))
# monotone card axiom needed: S subset M and S != M => card S < card M ; S subset M => card S <= card M
T = z3.Const('T', SetId)
cardmono = z3.ForAll([S,T], z3.Implies(sub(S,T), z3.And(card(S)<=card(T), z3.Implies(S!=T, card(S)<card(T)))))
def closed_upto(ek,E,D): return z3.ForAll([e,S], z3.Implies(z3.And(ek[e], sub(S,E[e]), card(S)>=2), z3.Or(has(ek,E,S), z3.And(FS[S], z3.Not(D[S])))))
inv = lambda ek,E,D: z3.And(ek[uid], E[uid]==M, closed_upto(ek,E,D), z3.ForAll([S], z3.Implies(D[S], has(ek,E,S))),
                            z3.ForAll([S], z3.Implies(D[S], FS[S])))
# step: pick face f in FS\D; if not has(f): new id j not in ek; ek'=ek+j; E'[j]=f
f = z3.Const('f', SetId); j = z3.Const('j', Id)
ek1 = z3.If(has(ek,E,f), ek, z3.Store(ek,j,True)); E1 = z3.If(has(ek,E,f), E, z3.Store(E,j,f))
D1 = z3.Store(D,f,True)
s = z3.Solver(); s.set('timeout',60000)
s.add(facespec, cardmono, inv(ek,E,D), FS[f], z3.Not(D[f]), z3.Not(ek[j]))
s.push(); s.add(z3.Not(inv(ek1,E1,D1))); t=time.time(); print('step:', s.check(), round(time.time()-t,2)); s.pop()
# exit: D == FS  => closed(ek,E)
s2 = z3.Solver(); s2.set('timeout',60000)
s2.add(facespec, cardmono, inv(ek,E,D), z3.ForAll([S], D[S]==FS[S]), z3.Not(closed(ek,E)))
t=time.time(); print('exit:', s2.check(), round(time.time()-t,2))
