# double_edge_swap: on the non-raising path, sizes/degrees preserved and UInv preserved
import z3, time
Id = z3.DeclareSort('Id'); SetId = z3.ArraySort(Id, z3.BoolSort())
card = z3.Function('card', SetId, z3.IntSort())
def add(s,x): return z3.Store(s,x,True)
def rem(s,x): return z3.Store(s,x,False)
terms=[]
def C(s): terms.append(s); return card(s)
nk,ek = z3.Consts('nk ek', SetId); N,E = z3.Consts('N E', z3.ArraySort(Id,SetId))
n1,n2,e1,e2 = z3.Consts('n1 n2 e1 e2', Id); n,e = z3.Consts('n e', Id)
UInv = lambda nk,ek,N,E: z3.ForAll([n,e], z3.And(nk[n], N[n][e]) == z3.And(ek[e], E[e][n]))
pre = [UInv(nk,ek,N,E), nk[n1], nk[n2], ek[e1], ek[e2],          # IDDict lookups succeeded
       E[e1][n1], E[e2][n2], N[n1][e1], N[n2][e2]]               # set.remove succeeded (else KeyError->IDNotFound)
tm1 = add(rem(E[e1],n1),n2); tm2 = add(rem(E[e2],n2),n1)
ts1 = add(rem(N[n1],e1),e2); ts2 = add(rem(N[n2],e2),e1)
guard = z3.And(C(ts1)==C(N[n1]), C(ts2)==C(N[n2]), C(tm1)==C(E[e1]), C(tm2)==C(E[e2]))
# card axioms instantiated for the store-chains used
def card_ax(base, x, y):
    r = rem(base,x); a = add(r,y)
    return [card(r) == card(base) - z3.If(base[x],1,0), card(a) == card(r) + z3.If(r[y],0,1), card(base)>=0]
ax = card_ax(E[e1],n1,n2)+card_ax(E[e2],n2,n1)+card_ax(N[n1],e1,e2)+card_ax(N[n2],e2,e1)
# post state: sequential stores as in the code
N1 = z3.Store(z3.Store(N,n1,ts1),n2,ts2); E1 = z3.Store(z3.Store(E,e1,tm1),e2,tm2)
s = z3.Solver(); s.set('timeout',30000); s.add(pre+ax+[guard])
s.push(); s.add(z3.Not(UInv(nk,ek,N1,E1))); t=time.time(); print('UInv preserved:', s.check(), round(time.time()-t,2)); s.pop()
# what does the guard imply? distinctness facts
for name,f in [('n1!=n2',n1!=n2),('e1!=e2',e1!=e2),('n2 not in e1',z3.Not(E[e1][n2])),('n1 not in e2',z3.Not(E[e2][n1]))]:
    s.push(); s.add(z3.Not(f)); print(name, s.check()); s.pop()
