# _plain_bfs: result == reach class of source. nbr is a symmetric relation given by neighbors() contract.
import z3, time
Id = z3.DeclareSort('Id'); SetId = z3.ArraySort(Id, z3.BoolSort())
nbr = z3.Function('nbr', Id, Id, z3.BoolSort()); reach = z3.Function('reach', Id, Id, z3.BoolSort())
u,v,w = z3.Consts('u v w', Id); src = z3.Const('src', Id)
ax = [z3.ForAll([u], reach(u,u)), z3.ForAll([u,v,w], z3.Implies(z3.And(reach(u,v), nbr(v,w)), reach(u,w)))]
seen, nxt, this, done = z3.Consts('seen nxt this done', SetId)   # done = processed part of thislevel in inner for
# outer invariant (at while head): seen ∪ nxt ⊆ reach(src); src ∈ seen ∪ nxt; ∀v∈seen. nbr(v) ⊆ seen ∪ nxt
def Iouter(seen,nxt): return z3.And(
    z3.ForAll([v], z3.Implies(z3.Or(seen[v],nxt[v]), reach(src,v))),
    z3.Or(seen[src],nxt[src]),
    z3.ForAll([v,w], z3.Implies(z3.And(seen[v], nbr(v,w)), z3.Or(seen[w],nxt[w]))))
# inner loop (for v in thislevel), state: seen, nxt(new nextlevel), done ⊆ this
def Iinner(seen,nxt,this,done): return z3.And(
    z3.ForAll([v], z3.Implies(z3.Or(seen[v],nxt[v],this[v]), reach(src,v))),
    z3.Or(seen[src],nxt[src],this[src]),
    z3.ForAll([v], z3.Implies(done[v], this[v])),
    z3.ForAll([v], z3.Implies(done[v], seen[v])),
    z3.ForAll([v,w], z3.Implies(z3.And(seen[v], nbr(v,w)), z3.Or(seen[w],nxt[w],z3.And(this[w],z3.Not(done[w]))))))
def chk(name, hyps, goal):
    s=z3.Solver(); s.set('timeout',30000); s.add(ax+hyps+[z3.Not(goal)]); t=time.time(); print(name, s.check(), round(time.time()-t,2))
empty = z3.K(Id,False)
# init: seen=∅, nxt={src}
chk('init', [], Iouter(empty, z3.Store(empty,src,True)))
# entering inner: this=nxt, nxt'=∅, done=∅
chk('enter-inner', [Iouter(seen,nxt)], Iinner(seen, empty, nxt, empty))
# inner step: pick x in this\done; if x not in seen: seen.add(x); nxt.update(nbrs(x)) with nbrs(x) = {w | nbr(x,w)}
x = z3.Const('x', Id); nb = z3.Const('nb', SetId)
nbspec = z3.ForAll([w], nb[w]==nbr(x,w))
seen1 = z3.If(seen[x], seen, z3.Store(seen,x,True))
nxt1 = z3.Const('nxt1', SetId); nxt1spec = z3.ForAll([w], nxt1[w] == z3.If(seen[x], nxt[w], z3.Or(nxt[w], nb[w])))
chk('inner-step', [Iinner(seen,nxt,this,done), this[x], z3.Not(done[x]), nbspec, nxt1spec], Iinner(seen1,nxt1,this,z3.Store(done,x,True)))
# inner exit: done == this  => Iouter(seen,nxt)
chk('inner-exit', [Iinner(seen,nxt,this,done), z3.ForAll([v], done[v]==this[v])], Iouter(seen,nxt))
# while exit: nxt empty => seen closed & contains src; with induction-schema instance: (src∈seen ∧ closed) ⇒ reach(src,·) ⊆ seen
schema = z3.Implies(z3.And(seen[src], z3.ForAll([v,w], z3.Implies(z3.And(seen[v],nbr(v,w)), seen[w]))), z3.ForAll([v], z3.Implies(reach(src,v), seen[v])))
chk('exit', [Iouter(seen,nxt), z3.ForAll([v], z3.Not(nxt[v])), schema], z3.ForAll([v], seen[v]==reach(src,v)))
