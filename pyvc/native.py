"""Native side of replay and of the bounded stand-ins.  Runs under /venv/bin/python (has xgi, no z3).

stdin : JSON list of cases {qual, self_kind, params: [[name, kind, enc]], state: {param: netstate}}
stdout: JSON list of {pre: {param: netstate}, post: {param: netstate}, exc, result}
A value is encoded as a tagged list (see enc/dec); network states are dumped table by table, so the
comparison on the other side sees the real _node/_edge/_node_attr/_edge_attr/_edge_uid contents.
"""
import copy
import importlib
import json
import sys
import warnings


class Opaque:
    """A hashable, non-iterable, non-numeric id."""

    def __init__(self, k):
        self.k = k

    def __hash__(self):
        return hash(("Opaque", self.k))

    def __eq__(self, o):
        return isinstance(o, Opaque) and o.k == self.k

    def __repr__(self):
        return "Opaque(%r)" % self.k


def dec(e):
    t = e[0]
    if t == "n":
        return None
    if t == "i":
        return int(e[1])
    if t == "b":
        return bool(e[1])
    if t == "f" or t == "fi":
        return float(e[1])
    if t == "s":
        return str(e[1])
    if t == "t":
        return tuple(dec(x) for x in e[1])
    if t == "fs":
        return frozenset(dec(x) for x in e[1])
    if t == "set":
        return set(dec(x) for x in e[1])
    if t == "l":
        return [dec(x) for x in e[1]]
    if t == "it":
        return iter([dec(x) for x in e[1]])
    if t == "o":
        return Opaque(e[1])
    if t == "d":
        return {dec(k): dec(v) for k, v in e[1]}
    if t == "idd":
        from xgi.utils import IDDict
        d = IDDict()
        for k, v in e[1]:
            d[dec(k)] = dec(v)
        return d
    raise ValueError(e)


def enc(v):
    if v is None:
        return ["n"]
    if isinstance(v, bool):
        return ["b", v]
    if isinstance(v, int):
        return ["i", v]
    if isinstance(v, float):
        if v.is_integer():
            return ["fi", int(v)]
        return ["f", v]
    if isinstance(v, str):
        return ["s", v]
    if isinstance(v, tuple):
        return ["t", [enc(x) for x in v]]
    if isinstance(v, frozenset):
        return ["fs", sorted((enc(x) for x in v), key=json.dumps)]
    if isinstance(v, set):
        return ["set", sorted((enc(x) for x in v), key=json.dumps)]
    if isinstance(v, list):
        return ["l", [enc(x) for x in v]]
    if isinstance(v, dict):
        return ["d", [[enc(k), enc(x)] for k, x in v.items()]]
    if isinstance(v, Opaque):
        return ["o", v.k]
    try:
        import numpy as np
        if isinstance(v, np.integer):
            return ["i", int(v)]
        if isinstance(v, np.floating):
            return enc(float(v))
    except Exception:
        pass
    return ["x", repr(v)[:80]]


def peek_counter(cnt):
    c = copy.copy(cnt)
    return next(c)


def dump_net(H):
    import xgi
    kind = "DH" if isinstance(H, xgi.DiHypergraph) else "SC" if isinstance(H, xgi.SimplicialComplex) else "H"
    d = {"kind": kind}
    if kind == "DH":
        d["node"] = [[enc(n), [enc(x) for x in v["in"]], [enc(x) for x in v["out"]]] for n, v in H._node.items()]
        d["edge"] = [[enc(e), [enc(x) for x in v["in"]], [enc(x) for x in v["out"]]] for e, v in H._edge.items()]
    else:
        d["node"] = [[enc(n), [enc(x) for x in v]] for n, v in H._node.items()]
        d["edge"] = [[enc(e), [enc(x) for x in v]] for e, v in H._edge.items()]
    d["node_attr"] = [[enc(n), enc(dict(a))] for n, a in H._node_attr.items()]
    d["edge_attr"] = [[enc(e), enc(dict(a))] for e, a in H._edge_attr.items()]
    d["net_attr"] = enc(dict(H._net_attr))
    d["uid"] = peek_counter(H._edge_uid)
    d["frozen"] = "frozen" in H.__dict__
    d["shadow"] = sorted(k for k, v in H.__dict__.items() if callable(v) and getattr(v, "__name__", "") == "frozen")
    return d


def build_net(st):
    """Materialise a network with exactly these tables (direct population, see DESIGN 3.2)."""
    import xgi
    from itertools import count
    cls = {"H": xgi.Hypergraph, "DH": xgi.DiHypergraph, "SC": xgi.SimplicialComplex}[st["kind"]]
    H = cls()
    if st["kind"] == "DH":
        for n, i, o in st["node"]:
            H._node[dec(n)] = {"in": set(dec(x) for x in i), "out": set(dec(x) for x in o)}
        for e, i, o in st["edge"]:
            H._edge[dec(e)] = {"in": set(dec(x) for x in i), "out": set(dec(x) for x in o)}
    else:
        for n, v in st["node"]:
            H._node[dec(n)] = set(dec(x) for x in v)
        for e, v in st["edge"]:
            mem = set(dec(x) for x in v)
            H._edge[dec(e)] = frozenset(mem) if st["kind"] == "SC" else mem
    for n, a in st["node_attr"]:
        H._node_attr[dec(n)] = dec(a)
    for e, a in st["edge_attr"]:
        H._edge_attr[dec(e)] = dec(a)
    H._net_attr.update(dec(st.get("net_attr", ["d", []])))
    H._edge_uid = count(st.get("uid", 0))
    if st.get("frozen"):
        H.freeze()
    return H


def resolve(qual):
    rel, name = qual.split("::")
    mod = importlib.import_module(rel[:-3].replace("/", "."))
    obj = mod
    for part in name.split("."):
        obj = getattr(obj, part)
    return obj


def run_case(case):
    fn = resolve(case["qual"])
    nets = {}
    args = []
    kwargs = {}
    for name, kind, e in case["params"]:
        if kind.startswith("net"):
            v = build_net(case["state"][name])
            nets[name] = v
        elif kind.startswith("view:"):
            nets[name] = build_net(case["state"][name])
            v = getattr(nets[name], kind.split(":")[1])
        elif kind == "kwattr":
            kwargs.update(dec(e))
            continue
        else:
            v = dec(e)
        args.append(v)
    pre = {k: dump_net(v) for k, v in nets.items()}
    exc = None
    result = None
    with warnings.catch_warnings(record=True) as w:
        warnings.simplefilter("always")
        try:
            r = fn(*args, **kwargs)
            import xgi
            if isinstance(r, (xgi.Hypergraph, xgi.DiHypergraph)):
                result = {"net": dump_net(r)}
            elif isinstance(r, xgi.core.views.IDView):
                result = {"val": enc(list(r))}  # a (sub-)view is observed as the list of its ids
            else:
                result = {"val": enc(r)}
        except BaseException as ex:  # noqa
            exc = type(ex).__name__
            excmro = [k.__name__ for k in type(ex).__mro__]
        warned = len(w) > 0
    post = {k: dump_net(v) for k, v in nets.items()}
    out = {"pre": pre, "post": post, "exc": exc, "result": result, "warned": warned}
    if exc:
        out["excmro"] = excmro
    return out


def main():
    sys.path.insert(0, sys.argv[1] if len(sys.argv) > 1 else "/repo")
    cases = json.load(sys.stdin)
    out = []
    for c in cases:
        try:
            out.append(run_case(c))
        except BaseException as ex:  # harness failure, not a verdict
            out.append({"harness_error": "%s: %s" % (type(ex).__name__, ex)})
    json.dump(out, sys.stdout)


if __name__ == "__main__":
    main()
