"""Bounded stand-in / witness search: the same contracts, evaluated on the real function over an
enumerated space of small inputs (DESIGN 5).  Never counted as proof; results are labelled bounded.
"""
import itertools
import json
import random

from .replay import run_native, evaluate

I = lambda n: ["i", n]
S = lambda s: ["s", s]
L = lambda *xs: ["l", list(xs)]
T = lambda *xs: ["t", list(xs)]
D = lambda *kv: ["d", [list(p) for p in kv]]
IT = lambda *xs: ["it", list(xs)]
NONE = ["n"]


def _h(nodes, edges, uid=None, node_attr=None, edge_attr=None, kind="H", frozen=False):
    """Network state from an edge table {eid: [members]} (+ isolated nodes)."""
    nk = list(nodes)
    for e, m in edges:
        for x in m:
            if x not in nk:
                nk.append(x)
    st = {"kind": kind, "node": [[n, [e for e, m in edges if n in m]] for n in nk],
          "edge": [[e, list(m)] for e, m in edges],
          "node_attr": [[n, (node_attr or {}).get(json.dumps(n), D())] for n in nk],
          "edge_attr": [[e, (edge_attr or {}).get(json.dumps(e), D())] for e, m in edges],
          "net_attr": D(), "frozen": frozen}
    ints = [e[1] for e, m in edges if e[0] == "i"]
    st["uid"] = uid if uid is not None else (max(ints) + 1 if ints else 0)
    return st


def _dh(nodes, edges, uid=None, frozen=False):
    nk = list(nodes)
    for e, t, h in edges:
        for x in t + h:
            if x not in nk:
                nk.append(x)
    st = {"kind": "DH",
          "node": [[n, [e for e, t, h in edges if n in h], [e for e, t, h in edges if n in t]] for n in nk],
          "edge": [[e, list(t), list(h)] for e, t, h in edges],
          "node_attr": [[n, D()] for n in nk], "edge_attr": [[e, D()] for e, t, h in edges], "net_attr": D(), "frozen": frozen}
    ints = [e[1] for e, t, h in edges if e[0] == "i"]
    st["uid"] = uid if uid is not None else (max(ints) + 1 if ints else 0)
    return st


def _closure(faces):
    out = []
    seen = set()
    for f in faces:
        f = list(f)
        for r in range(len(f), 1, -1):
            for sub in itertools.combinations(f, r):
                k = json.dumps(sorted(sub, key=json.dumps))
                if k not in seen:
                    seen.add(k)
                    out.append(list(sub))
    return out


def _sc(nodes, faces, frozen=False):
    edges = [[I(j), m] for j, m in enumerate(_closure(faces))]
    return _h(nodes, edges, kind="SC", frozen=frozen)


NETS = {
    "H": [
        _h([], []),
        _h([I(1)], []),
        _h([], [[I(0), [I(1), I(2)]]]),
        _h([I(9)], [[I(0), [I(1), I(2), I(3)]], [I(1), [I(2), I(3)]]]),
        _h([], [[I(0), [I(1), I(2)]], [I(1), [I(1), I(2)]], [I(2), [I(3)]]]),
        _h([], [[S("a"), [S("x"), I(2)]], [I(5), [I(2)]]], uid=6),
        _h([], [[I(0), []], [I(3), [I(1)]]], uid=7),
        _h([], [[I(1), [I(1), I(2)]], [I(0), [I(2), I(3)]]]),
        _h([], [[T(I(0), I(1)), [I(0), I(1), I(2)]], [I(2), [I(0), I(1)]]]),
    ],
    "DH": [
        _dh([], []),
        _dh([I(7)], [[I(0), [I(1), I(2)], [I(3)]]]),
        _dh([], [[I(0), [I(1), I(2)], [I(3)]], [I(1), [I(3)], [I(4)]]]),
        _dh([], [[I(0), [I(1)], [I(1), I(2)]], [S("e"), [I(2)], []]], uid=3),
        _dh([], [[I(1), [I(1), I(2)], [I(2), I(3)]], [I(0), [I(3)], [I(1)]]]),
    ],
    "SC": [
        _sc([], []),
        _sc([I(5)], [[I(1), I(2)]]),
        _sc([], [[I(1), I(2), I(3)]]),
        _sc([], [[I(1), I(2), I(3)], [I(3), I(4)]]),
        _sc([], [[S("a"), S("b"), S("c")], [S("c"), I(4)]]),
        _sc([], [[I(1), I(2), I(3), I(4)]]),
    ],
}

VALS = [
    NONE, I(0), I(1), I(2), I(3), I(5), I(9), ["fi", 0], ["fi", 4], S("a"), S("x"), T(I(1), I(2)),
    L(I(1), I(2)), L(I(4), I(5), I(6)), L(), L(I(1), NONE), L(I(1), L(I(2))), IT(I(1), I(4)), ["fs", [I(1), I(3)]],
    L(L(I(1), I(2)), L(I(2), I(4), I(5))),
    L(T(L(I(1), I(4)), S("q")), T(L(I(2)), I(0))),
    L(T(L(I(1), I(4)), I(7)), T(L(I(2), I(3)), I(2))),
    L(T(L(I(1), I(4)), D([S("w"), I(2)]))),
    L(T(L(I(1), I(4)), I(5), D([S("w"), I(2)])), T(L(I(4), I(8)), I(0), D())),
    L(T(IT(I(1), I(4)), S("q"))),
    L(T(L(I(1), NONE), S("q"))),
    D([S("k"), L(I(1), I(2))], [I(0), L(I(8), I(9))]),
    D([I(1), D([S("c"), I(1)])], [I(77), D([S("c"), I(2)])]),
    D([I(77), D([S("c"), I(2)])], [I(1), D([S("c"), I(1)])], [I(0), D([S("c"), I(3)])], [I(2), D([S("d"), I(4)])]),
    D([S("nope"), I(5)], [I(1), I(6)], [I(0), I(7)], [I(2), I(8)]),
    D([I(1), I(4)]),
    L(L(I(1), I(2), I(3)), L(I(2), I(3), I(4))),
    D([I(20), L(I(1), I(2), I(3))], [I(21), L(I(2), I(3), I(4))]),
    D([I(20), L(I(5), I(6), I(7))], [I(21), L(I(6), I(7), I(8))]),
    D([I(20), L(I(1), I(2), I(3))], [I(21), L(I(3), I(2), I(4))]),
    L(T(I(8), D([S("c"), I(1)])), I(9)),
    L(L(L(I(1), I(2)), L(I(3))), L(L(I(3)), L(I(4)))),
    T(L(I(1), I(2)), L(I(3))),
    L(T(T(L(I(1)), L(I(4))), I(5)), T(T(L(I(2)), L(I(3))), I(0))),
    S("in"), S("out"), S("first"), S("tuple"), S("new"), S("union"), S("intersection"), S("weight"),
]
KW = [D(), D([S("color"), S("red")])]


NODE_PARAMS = {"n", "node", "n_id1", "n_id2", "nid1", "nid2", "source"}
EDGE_PARAMS = {"id", "idx", "e", "edge", "e_id1", "e_id2"}
NODES_PARAMS = {"nodes", "nbunch"}
EDGES_PARAMS = {"ebunch", "ids", "edges"}


def cases_for(spec, variant=None, limit=400, seed=0, extra_vals=()):
    doms = []
    names = []
    for (name, ty, *rest) in spec.params:
        ty = (variant or {}).get(name, ty)
        names.append((name, ty))
        if ty.startswith("net:"):
            doms.append(NETS[ty[4:]])
        elif ty.startswith("view:"):
            doms.append(NETS[ty.split(":")[2]])
        elif ty == "bool":
            doms.append([["b", False], ["b", True]])
        elif ty == "int":
            doms.append([I(0), I(1), I(2)])
        elif ty == "kwattr":
            doms.append(KW)
        elif ty == "str":
            doms.append([v for v in VALS if v[0] == "s"])
        elif ty == "pydict":
            doms.append([["idd", []], ["idd", [[I(1), I(10)], [S("a"), I(11)]]], ["idd", [[I(0), I(5)], [T(I(1), I(2)), I(6)], [I(4), I(7)]]]])
        elif ty == "fset":
            doms.append([["fs", []], ["fs", [I(1), I(2)]], ["fs", [I(1), I(2), I(3)]], ["fs", [I(3), I(4), I(7)]], ["fs", [I(9)]], ["fs", [S("a"), S("b")]]])
        elif ty == "set":
            doms.append([["set", []], ["set", [I(1), I(2)]], ["set", [I(2), I(3), I(4)]]])
        else:
            doms.append(list(VALS) + list(extra_vals))
    total = 1
    for d in doms:
        total *= len(d)
    rng = random.Random(seed)
    if total <= limit:
        combos = list(itertools.product(*doms))
    else:
        combos = [tuple(rng.choice(d) for d in doms) for _ in range(limit)]
        # stratify the first free-valued parameter: every pool value is tried at least once when the limit allows,
        # so that the hand-picked corner inputs do not depend on the luck of the draw
        free = [i for i, (n, ty) in enumerate(names) if ty == "val"]
        if free:
            pool = list(doms[free[0]])
            rng.shuffle(pool)
            combos = [tuple(pool[j % len(pool)] if i == free[0] else v for i, v in enumerate(c)) for j, c in enumerate(combos)]
    # state-dependent arguments: ids and id lists drawn from the chosen network make preconditions such as
    # "bunch within the network" / "n is a node" hold far more often than independent draws
    net_idx = [i for i, (n, ty) in enumerate(names) if ty.startswith(("net:", "view:"))]
    if total > limit and net_idx:
        adapted = []
        nstrat = len(doms[free[0]]) if free else 0
        for j, combo in enumerate(combos):
            if j < nstrat and j % 2 == 0:
                adapted.append(combo)  # every other stratified case is kept as drawn
                continue
            st = combo[net_idx[0]]
            nids = [r[0] for r in st["node"]]
            eids = [r[0] for r in st["edge"]]
            combo = list(combo)
            for i, (name, ty) in enumerate(names):
                if ty != "val":
                    continue
                r = rng.random()
                if name == "bunch":
                    pool = eids if "edgestats" in spec.qual else nids
                    combo[i] = L(*rng.sample(pool, rng.randint(0, len(pool)))) if r < 0.9 else combo[i]
                elif name == "values" and r < 0.7:
                    # attribute setters: a dict keyed by ids of the network, with an unknown id in first, middle or last position
                    pool = list(eids if "edge_attributes" in spec.qual else nids)
                    rng.shuffle(pool)
                    rows = [[k, (D([S("c"), I(j + 1)]) if r < 0.35 else I(j + 1))] for j, k in enumerate(pool[:3])]
                    rows.insert(rng.choice([0, 0, len(rows) // 2, len(rows)]), [S("no-such-id"), (D([S("c"), I(9)]) if r < 0.35 else I(9))])
                    combo[i] = D(*rows)
                elif name == "name" and "_attributes" in spec.qual and r < 0.9:
                    combo[i] = NONE if r < 0.5 else S("weight")
                elif name in ("order", "weight", "degree", "max_order"):
                    combo[i] = NONE if r < 0.6 else (I(rng.randint(0, 2)) if r < 0.9 else combo[i])
                elif name in NODE_PARAMS and nids and r < 0.7:
                    combo[i] = rng.choice(nids)
                elif name in EDGE_PARAMS and eids and r < 0.7:
                    combo[i] = rng.choice(eids)
                elif name in NODES_PARAMS and nids and r < 0.6:
                    combo[i] = L(*rng.sample(nids, rng.randint(0, len(nids))))
                elif name in EDGES_PARAMS and eids and r < 0.6:
                    combo[i] = L(*rng.sample(eids, rng.randint(0, len(eids))))
                elif r < 0.2 and nids:
                    combo[i] = rng.choice(nids)
                elif r < 0.35 and eids:
                    combo[i] = rng.choice(eids)
                elif r < 0.45 and nids:
                    combo[i] = L(*rng.sample(nids, rng.randint(0, len(nids))))
                elif r < 0.55 and eids:
                    combo[i] = L(*rng.sample(eids, rng.randint(0, len(eids))))
            adapted.append(tuple(combo))
        combos = adapted
    out = []
    for combo in combos:
        params, state = [], {}
        for (name, ty), v in zip(names, combo):
            if ty.startswith(("net:", "view:")):
                state[name] = v
                params.append([name, ty, None])
            else:
                params.append([name, ty, v])
        out.append({"qual": spec.qual, "params": params, "state": state})
    return out, total


def run_bounded(spec, props=None, variant=None, limit=400, seed=0, repo=None, budget_s=None):
    """Returns dict(cases, evaluated, violations=[(case, outcome, failed clauses)], skipped).
    budget_s: stop evaluating further cases after this many seconds (the count evaluated is reported)."""
    import time
    cases, total = cases_for(spec, variant, limit, seed)
    outs = run_native(cases, repo=repo)
    viol, evaluated, skipped, herr = [], 0, 0, 0
    t0 = time.time()
    for case, o in zip(cases, outs):
        if budget_s is not None and time.time() - t0 > budget_s:
            break
        if "harness_error" in o:
            herr += 1
            continue
        ev = evaluate(spec, case, o, props)
        if ev is None:
            skipped += 1
            continue
        evaluated += 1
        bad = [(n, list(p)) for n, p, v in ev if v == "false"]
        if bad:
            viol.append((case, o, bad))
    return dict(space=total, cases=len(cases), evaluated=evaluated, skipped_pre=skipped, harness_errors=herr, violations=viol)
