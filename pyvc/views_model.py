"""Accessors of the node/edge views (xgi/core/views.py) that the kernel functions call.

These are *assumed* here with exactly the contracts that C06 proves for them on the real code
(copies of the table entries, IDNotFound for a missing id); listed in the trusted base of the
properties that use them until the C06 check discharges them.
"""
import z3

from .values import *
from .symexec import SymRaise, Unsupported, VDictItems, VDictKeys

TRUSTED = ["ASSUMED view model: IDView.from_view(view, bunch) yields the sub-view with exactly the ids of bunch (IDNotFound for a foreign id); view.filterby('degree'|'size', k) yields the "
           "ids whose degree / size is k (statistic dispatch by name); view.items() iterates the ids with their attribute records",
           "callers of H.edges.members(e | dtype=dict), H.nodes.memberships(n), H.nodes.neighbors(n), isolates(), singletons(), empty() are verified against the contracts of those accessors; "
           "the contracts themselves are discharged against the real methods by the C06 check (contracts/views.py), i.e. modular use, not an assumption"]


def view_method(ex, view, name, args, kw, node):
    c = ex.c
    w = ex.where(ex.cur)
    net = view.net
    if view.which == "edges" and name == "members" and net.kind != "DH":
        e = args[0] if args else kw.get("e")
        d = net.f["_edge"]
        if e is not None and not (isinstance(e, VVal) and e.term.eq(c.NONE)):
            k = ex.key_term(e, w)
            if not ex.branch(z3.Select(d.keys, k)):
                raise SymRaise("IDNotFound", w)
            return VSet(z3.Select(d.fields["v"], k), frozen=(net.kind == "SC"))
        dt = kw.get("dtype") if "dtype" in kw else (args[1] if len(args) > 1 else None)
        if isinstance(dt, VBuiltin) and dt.name == "dict":
            # EdgeView.members(dtype=dict): a new dict on exactly the edge ids whose values are copies of the member sets
            # (the contract discharged for the real method in contracts/views.py, `copy-of-the-members`)
            r = VDict("dict", "set", d.keys, {"v": d.fields["v"]})
            r.fresh_values = True
            return r
        raise Unsupported("edges.members() without an id (dtype=list)")
    if view.which == "nodes" and name == "memberships" and net.kind != "DH":
        n = args[0] if args else kw.get("n")
        d = net.f["_node"]
        if n is not None:
            k = ex.key_term(n, w)
            if not ex.branch(z3.Select(d.keys, k)):
                raise SymRaise("IDNotFound", w)
            return VSet(z3.Select(d.fields["v"], k))
        raise Unsupported("nodes.memberships() without an id")
    if view.which == "nodes" and name == "neighbors" and net.kind != "DH":
        # IDView.neighbors(idx, s=1) on the node view: ids sharing an edge with idx, idx itself excluded
        if len(args) > 1 or "s" in kw:
            raise Unsupported("neighbors with s != 1")
        k = ex.key_term(args[0], w)
        dn, de = net.f["_node"], net.f["_edge"]
        if not ex.branch(z3.Select(dn.keys, k)):
            raise SymRaise("IDNotFound", w)
        Nk = z3.Select(dn.fields["v"], k)
        # an edge listed by a node but absent from _edge raises IDNotFound inside the comprehension
        ok = c.forall(["id"], lambda e: z3.Implies(z3.Select(Nk, e), z3.Select(de.keys, e)))
        if not ex.branch(ok):
            raise SymRaise("IDNotFound", w)
        return VSet(c.setof(lambda i: z3.And(i != k, c.exists(["id"], lambda e: z3.And(z3.Select(Nk, e), z3.Select(z3.Select(de.fields["v"], e), i))))))
    if view.which == "nodes" and name == "isolates" and not args and not kw:
        # NodeView.isolates(): the nodes without memberships (a view = an iterable of those ids)
        dn = net.f["_node"]
        t = c.fresh_id("isolates")
        if net.kind == "DH":
            iso = c.setof(lambda n: z3.And(z3.Select(dn.keys, n), z3.Select(dn.fields["in"], n) == c.EMPTY, z3.Select(dn.fields["out"], n) == c.EMPTY))
        else:
            iso = c.setof(lambda n: z3.And(z3.Select(dn.keys, n), z3.Select(dn.fields["v"], n) == c.EMPTY))
        ex.assume(z3.And(c.iterable(t), z3.Not(c.one_shot(t)), c.elems_hashable(t), c.content(t) == iso, t != c.NONE,
                         z3.Not(c.intlike(t)), z3.Not(c.is_str(t)), z3.Not(c.is_dict(t))))
        return VVal(t)
    if view.which == "edges" and name in ("singletons", "empty") and not args and not kw and net.kind != "DH":
        de = net.f["_edge"]
        t = c.fresh_id(name)
        k = 1 if name == "singletons" else 0
        sel_ = c.setof(lambda e: z3.And(z3.Select(de.keys, e), c.card(z3.Select(de.fields["v"], e)) == k))
        ex.assume(z3.And(c.iterable(t), z3.Not(c.one_shot(t)), c.elems_hashable(t), c.content(t) == sel_, t != c.NONE,
                         z3.Not(c.intlike(t)), z3.Not(c.is_str(t)), z3.Not(c.is_dict(t))))
        return VVal(t)
    if name == "from_view":
        # IDView.from_view(view, bunch): the sub-view holding exactly the ids of `bunch` (IDNotFound when one of them is not an id
        # of the network).  ASSUMED (listed in TRUSTED): the result is represented as an iterable value with that content.
        bunch = kw.get("bunch") if "bunch" in kw else (args[1] if len(args) > 1 else None)
        if bunch is None or not args or args[0] is not view and not (isinstance(args[0], type(view)) and args[0].net is view.net and args[0].which == view.which):
            raise Unsupported("from_view of another view / without a bunch")
        S, distinct, kind, srcobj = ex.iter_source(bunch, node)
        d = net.f["_node" if view.which == "nodes" else "_edge"]
        if not ex.branch(c.subset(S, d.keys)):
            raise SymRaise("IDNotFound", w)
        t = c.fresh_id("subview")
        ex.assume(z3.And(c.iterable(t), z3.Not(c.one_shot(t)), c.elems_hashable(t), c.content(t) == S, t != c.NONE,
                         z3.Not(c.intlike(t)), z3.Not(c.is_str(t)), z3.Not(c.is_dict(t))))
        return VVal(t)
    if name == "filterby" and len(args) == 2 and not kw and isinstance(args[0], VStr) and args[0].s in ("degree", "size"):
        # view.filterby("degree" | "size", k) with the default mode "eq": the ids whose degree / size equals k.  ASSUMED (TRUSTED): the
        # statistic dispatched by name is the one defined in xgi/stats (whose definition is proved under C06) and filterby compares with ==
        kt = ex.tint(args[1])
        if (view.which == "nodes") != (args[0].s == "degree"):
            raise Unsupported("filterby(%s) on the %s view" % (args[0].s, view.which))
        d = net.f["_node" if view.which == "nodes" else "_edge"]
        if net.kind == "DH":
            sz = lambda x: c.card(c.union(z3.Select(d.fields["in"], x), z3.Select(d.fields["out"], x)))
        else:
            sz = lambda x: c.card(z3.Select(d.fields["v"], x))
        t = c.fresh_id("filtered")
        kz = z3.simplify(kt)
        if z3.is_int_value(kz) and kz.as_long() == 0:
            # size 0 stated as emptiness (card s == 0 <=> s is empty; saves the solver the detour through the cardinality axioms)
            if net.kind == "DH":
                hit = lambda x: z3.And(z3.Select(d.fields["in"], x) == c.EMPTY, z3.Select(d.fields["out"], x) == c.EMPTY)
            else:
                hit = lambda x: z3.Select(d.fields["v"], x) == c.EMPTY
        else:
            hit = lambda x: sz(x) == kt
        ex.assume(z3.And(c.iterable(t), z3.Not(c.one_shot(t)), c.elems_hashable(t), c.content(t) == c.setof(lambda x: z3.And(z3.Select(d.keys, x), hit(x))),
                         t != c.NONE, z3.Not(c.intlike(t)), z3.Not(c.is_str(t)), z3.Not(c.is_dict(t))))
        return VVal(t)
    if name == "items":
        return VDictItems(net.f["_node_attr" if view.which == "nodes" else "_edge_attr"])
    raise Unsupported("view method %s.%s" % (view.which, name))
