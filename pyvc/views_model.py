"""Accessors of the node/edge views (xgi/core/views.py) that the kernel functions call.

These are *assumed* here with exactly the contracts that C06 proves for them on the real code
(copies of the table entries, IDNotFound for a missing id); listed in the trusted base of the
properties that use them until the C06 check discharges them.
"""
import z3

from .values import *
from .symexec import SymRaise, Unsupported, VDictItems, VDictKeys

TRUSTED = ["EdgeView.members(e) / NodeView.memberships(n) return a copy of the table entry (IDNotFound if absent); view.items() iterates ids with their attribute records"]


def view_method(ex, view, name, args, kw, node):
    c = ex.c
    w = ex.where(ex.cur)
    net = view.net
    if view.which == "edges" and name == "members" and net.kind != "DH":
        e = args[0] if args else kw.get("e")
        d = net.f["_edge"]
        if e is not None and not (isinstance(e, VVal) and e.term.eq(c.NONE)):
            k = ex.key_term(e, w)
            if not ex.branch(z3.Select(d.keys, k)):
                raise SymRaise("IDNotFound", w)
            return VSet(z3.Select(d.fields["v"], k), frozen=(net.kind == "SC"))
        raise Unsupported("edges.members() without an id")
    if view.which == "nodes" and name == "memberships" and net.kind != "DH":
        n = args[0] if args else kw.get("n")
        d = net.f["_node"]
        if n is not None:
            k = ex.key_term(n, w)
            if not ex.branch(z3.Select(d.keys, k)):
                raise SymRaise("IDNotFound", w)
            return VSet(z3.Select(d.fields["v"], k))
        raise Unsupported("nodes.memberships() without an id")
    if name == "items":
        return VDictItems(net.f["_node_attr" if view.which == "nodes" else "_edge_attr"])
    raise Unsupported("view method %s.%s" % (view.which, name))
