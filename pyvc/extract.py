"""Mechanical extraction of function ASTs from /repo's working tree (DESIGN 1.2).

Dropped, exactly: docstrings (an Expr statement that is a bare string constant, anywhere in a body)
and comments (not in the AST).  Message text of f-strings / warn() / exception constructors is kept
in the AST but ignored by the executor (it evaluates to an opaque string).
"""
import ast
import hashlib
import os

REPO = os.environ.get("PYVC_REPO", "/repo")


class _Strip(ast.NodeTransformer):
    def _strip(self, n):
        self.generic_visit(n)
        body = [s for s in n.body if not (isinstance(s, ast.Expr) and isinstance(s.value, ast.Constant)
                                          and isinstance(s.value.value, str))]
        n.body = body or [ast.Pass()]
        return n

    visit_FunctionDef = _strip
    visit_ClassDef = _strip
    visit_Module = _strip


class Module:
    def __init__(self, rel):
        self.rel = rel
        path = os.path.join(REPO, rel)
        self.src = open(path).read()
        self.tree = _Strip().visit(ast.parse(self.src))
        self.funcs = {}  # qualname -> FunctionDef
        self.classes = {}  # name -> (bases, {method names})
        self.props = {}  # qualname -> True if @property
        for n in self.tree.body:
            if isinstance(n, ast.FunctionDef):
                self.funcs[n.name] = n
            elif isinstance(n, ast.ClassDef):
                bases = [b.id if isinstance(b, ast.Name) else ast.unparse(b) for b in n.bases]
                ms = {}
                for m in n.body:
                    if isinstance(m, ast.FunctionDef):
                        q = "%s.%s" % (n.name, m.name)
                        # keep the first definition unless a later one is a setter etc.
                        self.funcs.setdefault(q, m)
                        ms[m.name] = m
                        if any(isinstance(d, ast.Name) and d.id == "property" for d in m.decorator_list):
                            self.props[q] = True
                self.classes[n.name] = (bases, ms)


_cache = {}


def module(rel):
    if rel not in _cache:
        _cache[rel] = Module(rel)
    return _cache[rel]


def function(qual):
    rel, name = qual.split("::")
    m = module(rel)
    if name not in m.funcs:
        raise KeyError("function %s not found in %s" % (name, rel))
    return m.funcs[name]


def fn_hash(qual):
    return hashlib.sha256(ast.dump(function(qual)).encode()).hexdigest()[:16]


CLASS_FILE = {
    "Hypergraph": "xgi/core/hypergraph.py",
    "DiHypergraph": "xgi/core/dihypergraph.py",
    "SimplicialComplex": "xgi/core/simplicialcomplex.py",
}
KIND_CLASS = {"H": "Hypergraph", "DH": "DiHypergraph", "SC": "SimplicialComplex"}
CLASS_KIND = {v: k for k, v in KIND_CLASS.items()}


def resolve_method(kind, name):
    """Follow the real MRO (from the ASTs) to the class that defines `name`; returns qual or None."""
    cls = KIND_CLASS[kind]
    seen = set()
    while cls in CLASS_FILE and cls not in seen:
        seen.add(cls)
        m = module(CLASS_FILE[cls])
        bases, ms = m.classes[cls]
        if name in ms:
            return "%s::%s.%s" % (CLASS_FILE[cls], cls, name)
        cls = bases[0] if bases else None
    return None


def public_methods(kind):
    """name -> defining qual for every method reachable on an instance of the class."""
    out = {}
    cls = KIND_CLASS[kind]
    chain = []
    while cls in CLASS_FILE:
        chain.append(cls)
        bases, _ = module(CLASS_FILE[cls]).classes[cls]
        cls = bases[0] if bases else None
    for c in reversed(chain):
        _, ms = module(CLASS_FILE[c]).classes[c]
        for name in ms:
            out[name] = "%s::%s.%s" % (CLASS_FILE[c], c, name)
    return out


def header_text(node):
    """Normalised source text of a loop header: the stable handle loop invariants attach to."""
    if isinstance(node, ast.For):
        t = node.target
        tt = ", ".join(ast.unparse(e) for e in t.elts) if isinstance(t, ast.Tuple) else ast.unparse(t)
        return "for %s in %s" % (tt, ast.unparse(node.iter))
    if isinstance(node, ast.While):
        return "while %s" % ast.unparse(node.test)
    raise TypeError(node)


def stmt_text(node, limit=60):
    t = ast.unparse(node).split("\n")[0]
    return t if len(t) <= limit else t[:limit - 3] + "..."


def freeze_names(kind):
    """Method names that freeze() of the class installs `frozen` over (read from its AST)."""
    q = resolve_method(kind, "freeze")
    if q is None:
        return set()
    out = set()
    for n in ast.walk(function(q)):
        if isinstance(n, ast.Assign) and isinstance(n.value, ast.Name) and n.value.id == "frozen":
            for t in n.targets:
                if isinstance(t, ast.Attribute) and isinstance(t.value, ast.Name) and t.value.id == "self":
                    out.add(t.attr)
    return out
