"""Bounded stand-ins with native oracles (run under /venv/bin/python): each function checks one
property against its set-theoretic / graph-theoretic definition on enumerated small networks.
usage: native_oracles.py <repo> <seed> <property> [thorough]
stdout: JSON {property, checks, networks, violations:[{what, net, detail}], bound}
"""
import itertools
import json
import math
import os
import random
import sys
import tempfile
import warnings

sys.path.insert(0, sys.argv[1] if len(sys.argv) > 1 else "/repo")
SEED = int(sys.argv[2]) if len(sys.argv) > 2 else 0
PROP = sys.argv[3] if len(sys.argv) > 3 else "C14"
THOROUGH = len(sys.argv) > 4 and sys.argv[4] == "thorough"

import matplotlib  # noqa: E402
matplotlib.use("Agg")
import networkx as nx  # noqa: E402
import numpy as np  # noqa: E402
import xgi  # noqa: E402

V = []
N = [0]
CASES = set()


def check(cond, what, net, detail=""):
    N[0] += 1
    CASES.add((what.split(" (")[0], str(net)[:200]))
    if not cond and len(V) < 200:
        V.append({"what": what, "net": str(net)[:160], "detail": str(detail)[:300]})


def edge_lists(max_nodes=4, max_edges=3, labels=None):
    """All multisets of at most max_edges non-empty subsets of an n-node universe (n <= max_nodes)."""
    labels = labels or list(range(max_nodes))
    subsets = [list(c) for r in range(1, len(labels) + 1) for c in itertools.combinations(labels, r)]
    for k in range(0, max_edges + 1):
        for combo in itertools.combinations_with_replacement(subsets, k):
            yield [list(e) for e in combo]


def small_hypergraphs(thorough=False):
    """(description, Hypergraph) - exhaustive small ones plus seeded random larger ones and special label sets."""
    count = 0
    for el in edge_lists(4, 3 if thorough else 2):
        H = xgi.Hypergraph()
        H.add_nodes_from(range(4) if count % 3 == 0 else [])
        H.add_edges_from(el)
        count += 1
        yield ("exh:%s" % el, H)
    rng = random.Random(SEED)
    for i in range(60 if thorough else 25):
        n = rng.randint(3, 8)
        m = rng.randint(1, 7)
        el = [rng.sample(range(n), rng.randint(1, min(n, 4))) for _ in range(m)]
        H = xgi.Hypergraph()
        H.add_nodes_from(rng.sample(range(n + 2), n + 2))
        ids = rng.sample(range(20), m)
        H.add_edges_from([(e, j) for e, j in zip(el, ids)])
        yield ("rnd:%s/%s" % (el, ids), H)
    H = xgi.Hypergraph({"e1": ["a", "b", "c"], "e2": ["c", "d"], 7: ["d", "e", "a"], "e3": ["f"]})
    H.add_node("iso")
    yield ("str-labels", H)
    H = xgi.Hypergraph()
    H.add_nodes_from(["a", "b", 7])
    yield ("edgeless-str-labels", H)
    H = xgi.Hypergraph({5: [10, 20], 9: [20, 30]})
    H.remove_edges_from([5, 9])
    yield ("edges-removed-gapped-labels", H)


def relabel(H, nmap, emap, order_seed):
    rng = random.Random(order_seed)
    K = xgi.Hypergraph()
    nodes = list(H.nodes)
    rng.shuffle(nodes)
    K.add_nodes_from([nmap[n] for n in nodes])
    edges = list(H.edges)
    rng.shuffle(edges)
    for e in edges:
        mem = list(H._edge[e])
        rng.shuffle(mem)
        K.add_edge([nmap[n] for n in mem], idx=emap[e])
    return K


# ------------------------------------------------------------------ C14
def bip(H):
    G = nx.Graph()
    G.add_nodes_from(("n", n) for n in H.nodes)
    for e, mem in H._edge.items():
        G.add_node(("e", e))
        for n in mem:
            G.add_edge(("n", n), ("e", e))
    return G


def clique_expansion(H):
    G = nx.Graph()
    G.add_nodes_from(H.nodes)
    for mem in H._edge.values():
        for a, b in itertools.combinations(mem, 2):
            G.add_edge(a, b)
    return G


def c14():
    for label, H in small_hypergraphs(THOROUGH):
        G = bip(H)
        want = sorted((sorted((x[1] for x in comp if x[0] == "n"), key=repr) for comp in nx.connected_components(G) if any(x[0] == "n" for x in comp)), key=repr)
        comps = [set(c) for c in xgi.connected_components(H)]
        got = sorted((sorted(c, key=repr) for c in comps), key=repr)
        check(got == want, "connected components = components of the bipartite graph", label, (got, want))
        check(sum(len(c) for c in comps) == H.num_nodes and set().union(*comps) == set(H.nodes) if comps else H.num_nodes == 0, "components partition the node set", label)
        check(xgi.number_connected_components(H) == len(want), "number_connected_components", label)
        if H.num_nodes:
            check(xgi.is_connected(H) == (len(want) == 1), "is_connected", label)
            check(len(xgi.largest_connected_component(H)) == max(len(c) for c in want), "largest_connected_component size", label)
            for n in list(H.nodes)[:3]:
                check(sorted(xgi.node_connected_component(H, n), key=repr) == [c for c in want if n in c][0], "node_connected_component", label)
            CE = clique_expansion(H)
            sp = dict(xgi.shortest_path_length(H))
            nxsp = dict(nx.all_pairs_shortest_path_length(CE))
            ok = True
            for a in H.nodes:
                for b in H.nodes:
                    d = sp[a][b]
                    w = nxsp[a].get(b, math.inf)
                    if d != w or sp[b][a] != d:
                        ok = False
            check(ok, "shortest path lengths = BFS distances in the clique expansion (symmetric, inf across components)", label)
            if H.num_edges and all(len(m) >= 1 for m in H._edge.values()):
                try:
                    cc = xgi.clustering_coefficient(H)
                    nxcc = nx.clustering(CE)
                    check(all(abs(cc[n] - nxcc[n]) < 1e-9 for n in H.nodes), "clustering coefficient = graph clustering of the projection", label, (cc, nxcc))
                except Exception as e:  # noqa
                    check(False, "clustering coefficient raised", label, repr(e))
            # projection graph: also for hypergraphs without edges (vertex set = node set, whatever the labels)
            Gp = xgi.to_graph(H)
            check(set(Gp.nodes) == set(H.nodes) and {frozenset(e) for e in Gp.edges if e[0] != e[1]} == {frozenset(e) for e in CE.edges}, "to_graph = pairwise projection", label,
                  (sorted(map(repr, Gp.nodes)), sorted(map(repr, H.nodes))))
        # s-line graph
        for s in (1, 2):
            for weights in (None, "absolute", "normalized"):
                if weights == "normalized" and any(len(m) == 0 for m in H._edge.values()):
                    continue
                LG = xgi.to_line_graph(H, s=s, weights=weights)
                want_e = {}
                for e1, e2 in itertools.combinations(H._edge, 2):
                    k = len(set(H._edge[e1]) & set(H._edge[e2]))
                    if k >= s:
                        want_e[frozenset((e1, e2))] = k if weights != "normalized" else k / min(len(H._edge[e1]), len(H._edge[e2]))
                got_e = {frozenset((a, b)): (d.get("weight") if weights else None) for a, b, d in LG.edges(data=True)}
                ok = set(LG.nodes) == set(H.edges) and set(got_e) == set(want_e) and (not weights or all(abs(got_e[k] - want_e[k]) < 1e-12 for k in want_e))
                check(ok, "s-line graph vertices/links/weights (s=%d, %s)" % (s, weights), label, (got_e, want_e))
        BG, nd, ed = xgi.to_bipartite_graph(H, index=True)
        ok = sorted(nd.values(), key=repr) == sorted(H.nodes, key=repr) and sorted(ed.values(), key=repr) == sorted(H.edges, key=repr)
        links = {(nd.get(a, ed.get(a)), nd.get(b, ed.get(b))) for a, b in BG.edges}
        want_l = {(n, e) for e, mem in H._edge.items() for n in mem}
        got_l = set()
        for a, b in BG.edges:
            if a in nd and b in ed:
                got_l.add((nd[a], ed[b]))
            elif b in nd and a in ed:
                got_l.add((nd[b], ed[a]))
            else:
                ok = False
        check(ok and got_l == want_l and BG.number_of_nodes() == H.num_nodes + H.num_edges, "bipartite graph vertices and links", label)
        for st in ("all", "immediate"):
            dag = xgi.to_encapsulation_dag(H, subset_types=st)
            want_a = set()
            for e, f in itertools.permutations(H._edge, 2):
                A, B = set(H._edge[e]), set(H._edge[f])
                if B < A and (A & B) and (st == "all" or len(A) - len(B) == 1):
                    want_a.add((e, f))
            check(set(dag.nodes) == set(H.edges) and set(dag.edges) == want_a, "encapsulation DAG (%s)" % st, label, (sorted(dag.edges, key=repr), sorted(want_a, key=repr)))
            if st == "all":
                all_arcs = set(want_a)
            else:
                imm_arcs = set(want_a)
        # "empirical": a relaxation of "immediate" that links a hyperedge only to its largest existing subsets (and, in the filter, a subset only to
        # its smallest existing supersets).  Order-independent consequences of that definition: a sub-relation of "all", containing "immediate",
        # in which all kept subsets of one hyperedge have the same size and all kept supersets of one hyperedge have the same size
        dag = xgi.to_encapsulation_dag(H, subset_types="empirical")
        emp = set(dag.edges)
        sz = {e: len(H._edge[e]) for e in H._edge}
        check(set(dag.nodes) == set(H.edges) and emp <= all_arcs and imm_arcs <= emp
              and all(len({sz[b] for a2, b in emp if a2 == a}) <= 1 for a in sz) and all(len({sz[a] for a, b2 in emp if b2 == b}) <= 1 for b in sz),
              "encapsulation DAG (empirical) links each hyperedge to subsets of one size only, within `all`, including `immediate`", label, sorted(emp, key=repr))
    D = xgi.DiHypergraph([([1, 2], [3]), ([3], [4, 1]), ([5], [])])
    BG, nd, ed = xgi.to_bipartite_graph(D, index=True)
    arcs = set()
    for a, b in BG.edges:
        arcs.add((nd[a], ("e", ed[b])) if a in nd else (("e", ed[a]), nd[b]))
    want = {(n, ("e", e)) for e in D.edges for n in D._edge[e]["in"]} | {(("e", e), n) for e in D.edges for n in D._edge[e]["out"]}
    check(arcs == want, "directed bipartite graph: tail -> edge -> head", "DH")
    return "exhaustive hypergraphs on 4 nodes with <= %d edges + %d seeded random (<= 8 nodes, <= 7 edges) + string labels" % (3 if THOROUGH else 2, 60 if THOROUGH else 25)



# ------------------------------------------------------------------ helpers for network equality
def net_state(H, ordered=True):
    if isinstance(H, xgi.DiHypergraph):
        E = {k: (frozenset(v["in"]), frozenset(v["out"])) for k, v in H._edge.items()}
    else:
        E = {k: frozenset(v) for k, v in H._edge.items()}
    d = dict(cls=type(H).__name__, nodes=list(H._node) if ordered else sorted(H._node, key=repr), E=E,
             edges=list(H._edge) if ordered else sorted(H._edge, key=repr),
             NA={k: dict(v) for k, v in H._node_attr.items()}, EA={k: dict(v) for k, v in H._edge_attr.items()}, net=dict(H._net_attr))
    return d


def incidences(H):
    if isinstance(H, xgi.DiHypergraph):
        return {(n, e, "in") for e, v in H._edge.items() for n in v["in"]} | {(n, e, "out") for e, v in H._edge.items() for n in v["out"]}
    return {(n, e) for e, v in H._edge.items() for n in v}


def rich_networks():
    out = []
    H = xgi.Hypergraph()
    H.add_nodes_from([(3, {"c": "r"}), (1, {}), ("iso", {"k": 1}), 2])
    H.add_edges_from([([3, 1], 5, {"w": 1.5}), ([1, 2], 2, {}), ([], "empty", {"z": [1]}), ([2], 6, {}), ([3, 1], 9, {})])
    H["name"] = "rich"
    out.append(("H-rich", H))
    out.append(("H-int", xgi.Hypergraph([[0, 1, 2], [2, 3], [3], [0, 1, 2]])))
    D = xgi.DiHypergraph()
    D.add_nodes_from([("a", {"c": 1}), "iso"])
    D.add_edges_from([((["a", "b"], ["b", "c"]), 3, {"w": 2}), ((["c"], []), 0, {}), (([], ["a"]), "h", {})])
    D["name"] = "di"
    out.append(("DH-rich", D))
    S = xgi.SimplicialComplex()
    S.add_nodes_from([(1, {"c": "x"}), 9])
    S.add_simplices_from([([1, 2, 3], "t", {"w": 1}), ([3, 4], 7, {})])
    S["name"] = "sc"
    out.append(("SC-rich", S))
    return out


# ------------------------------------------------------------------ C09
def c09():
    import itertools as it
    for label, H in small_hypergraphs(THOROUGH):
        if H.num_nodes == 0:
            continue
        nodes, edges = list(H.nodes), list(H.edges)
        rng = random.Random(hash(label) % 1000 + SEED)
        variants = []
        perm = edges[:]
        rng.shuffle(perm)
        if all(isinstance(e, int) for e in edges) and edges:
            variants.append(({n: n for n in nodes}, dict(zip(edges, perm))))           # permutation of the same edge ids
        variants.append(({n: "n%s" % (n,) for n in nodes}, {e: "e%s" % (e,) for e in edges}))  # strings
        variants.append(({n: 100 + i * 3 for i, n in enumerate(nodes)}, {e: 50 - i * 2 for i, e in enumerate(edges)}))  # other ints with gaps
        scattered = rng.sample([13, 77, 255, 1000, 4096, 31, 8, 640, 90, 5000, 17, 2], len(nodes)) if len(nodes) <= 12 else None
        if scattered:
            variants.append((dict(zip(nodes, scattered)), {e: e for e in edges}))  # non-monotone large / small integers
        for vi, (nmap, emap) in enumerate(variants):
            K = relabel(H, nmap, emap, SEED + vi)
            tag = "%s / variant %d" % (label, vi)
            def same_node_map(f, name, tol=1e-9, **kw):
                try:
                    a, b = f(H, **kw), f(K, **kw)
                except Exception as e:  # noqa
                    try:
                        f(H, **kw)
                        check(False, "%s raises only after relabelling" % name, tag, repr(e))
                    except Exception:
                        pass
                    return
                ok = set(b) == {nmap[n] for n in a} and all((a[n] == b[nmap[n]]) or (isinstance(a[n], float) and (abs(a[n] - b[nmap[n]]) < tol or (a[n] != a[n] and b[nmap[n]] != b[nmap[n]]))) for n in a)
                check(ok, "%s invariant under relabelling" % name, tag, (a, b))
            same_node_map(lambda X: X.nodes.degree.asdict(), "degree")
            same_node_map(lambda X: X.nodes.average_neighbor_degree.asdict(), "average_neighbor_degree")
            same_node_map(lambda X: xgi.clustering_coefficient(X), "clustering_coefficient")
            same_node_map(lambda X: xgi.local_clustering_coefficient(X), "local_clustering_coefficient")
            for kind in ("union", "min", "max"):
                same_node_map(lambda X, kind=kind: xgi.two_node_clustering_coefficient(X, kind=kind), "two_node_clustering_coefficient(%s)" % kind)
            a = {e: H.edges.size[e] for e in edges}
            b = K.edges.size.asdict()
            check(all(a[e] == b[emap[e]] for e in edges), "edge size invariant", tag)
            ca = sorted(sorted(nmap[n] for n in c) for c in map(list, xgi.connected_components(H)))
            cb = sorted(sorted(c) for c in map(list, xgi.connected_components(K)))
            check(sorted(map(lambda c: sorted(map(repr, c)), ca)) == sorted(map(lambda c: sorted(map(repr, c)), cb)), "connected components invariant", tag)
            spa, spb = dict(xgi.shortest_path_length(H)), dict(xgi.shortest_path_length(K))
            check(all(spa[x][y] == spb[nmap[x]][nmap[y]] for x in nodes for y in nodes), "path lengths invariant", tag)
            for fn in (xgi.density, xgi.incidence_density, xgi.max_edge_order, xgi.unique_edge_sizes, xgi.is_uniform):
                try:
                    ra, rb = fn(H), fn(K)
                    check(ra == rb or (isinstance(ra, float) and abs(ra - rb) < 1e-12), "%s invariant" % fn.__name__, tag, (ra, rb))
                except Exception:
                    pass
            if H.num_edges:
                check({emap[e] for e in H.edges.maximal()} == set(K.edges.maximal()), "maximal edges invariant", tag)
                check(len(H.edges.duplicates()) == len(K.edges.duplicates()), "number of duplicate edges invariant", tag)
                for fn, kw in ((xgi.simplicial_fraction, {}), (xgi.edit_simpliciality, {}), (xgi.face_edit_simpliciality, {})):
                    try:
                        ra, rb = fn(H, **kw), fn(K, **kw)
                        check((ra != ra and rb != rb) or abs(ra - rb) < 1e-9, "%s invariant" % fn.__name__, tag, (ra, rb))
                    except Exception:
                        pass
                try:
                    Ia, ra_, ca_ = xgi.incidence_matrix(H, sparse=False, index=True)
                    Ib, rb_, cb_ = xgi.incidence_matrix(K, sparse=False, index=True)
                    posn = {v: k for k, v in rb_.items()}
                    pose = {v: k for k, v in cb_.items()}
                    ok = all(Ia[i, j] == Ib[posn[nmap[ra_[i]]], pose[emap[ca_[j]]]] for i in ra_ for j in ca_)
                    check(ok, "incidence matrix invariant up to the induced permutation", tag)
                    Aa, ia = xgi.adjacency_matrix(H, sparse=False, index=True)
                    Ab, ib = xgi.adjacency_matrix(K, sparse=False, index=True)
                    pb = {v: k for k, v in ib.items()}
                    check(all(Aa[i, j] == Ab[pb[nmap[ia[i]]], pb[nmap[ia[j]]]] for i in ia for j in ia), "adjacency matrix invariant up to permutation", tag)
                except Exception as e:  # noqa
                    check(False, "matrix raised", tag, repr(e))
                for kind in ("uniform", "top-2", "top-bottom"):
                    try:
                        ra, rb = xgi.degree_assortativity(H, kind=kind, exact=True), xgi.degree_assortativity(K, kind=kind, exact=True)
                        check((ra != ra and rb != rb) or abs(ra - rb) < 1e-9, "exact degree assortativity (%s) invariant" % kind, tag, (ra, rb))
                    except Exception:
                        pass
                try:
                    ra, rb = xgi.dynamical_assortativity(H), xgi.dynamical_assortativity(K)
                    check((ra != ra and rb != rb) or abs(ra - rb) < 1e-9, "dynamical assortativity invariant", tag, (ra, rb))
                except Exception:
                    pass
                try:
                    ka, kb = xgi.katz_centrality(H), xgi.katz_centrality(K)
                    check(all(abs(ka[n] - kb[nmap[n]]) < 1e-7 or (ka[n] != ka[n]) for n in nodes), "katz centrality invariant", tag, (ka, kb))
                except Exception:
                    pass
    return "every hypergraph of the C14 pool x {permutation of the same edge ids, string labels, other integers with gaps} x shuffled insertion order"


# ------------------------------------------------------------------ C10
def c10():
    for label, H in rich_networks() + [(l, h) for l, h in small_hypergraphs(False)][:120]:
        di = isinstance(H, xgi.DiHypergraph)
        sc = isinstance(H, xgi.SimplicialComplex)
        cls = type(H)
        inc = incidences(H)
        if not di:
            d = xgi.to_hyperedge_dict(H)
            K = xgi.from_hyperedge_dict(d, create_using=cls) if not sc else xgi.from_hyperedge_dict(d, create_using=xgi.Hypergraph)
            check(incidences(K) == inc and list(K.edges) == list(H.edges), "hyperedge dict round trip (labels kept)", label)
            l = xgi.to_hyperedge_list(H)
            K = xgi.from_hyperedge_list(l, create_using=xgi.Hypergraph)
            check([set(m) for m in K.edges.members()] == [set(m) for m in H.edges.members()], "hyperedge list round trip (edge order kept)", label)
            if all(len(m) for m in H._edge.values()):
                I, rd, cd = xgi.to_incidence_matrix(H, sparse=False, index=True)
                K = xgi.from_incidence_matrix(I, nodelabels=[rd[i] for i in range(len(rd))], edgelabels=[cd[j] for j in range(len(cd))])
                check(incidences(K) == {(n, e) for n, e in inc}, "labelled incidence matrix round trip", label, (incidences(K), inc))
            df = xgi.to_bipartite_pandas_dataframe(H)
            K = xgi.from_bipartite_pandas_dataframe(df, node_column="Node ID" if "Node ID" in df.columns else 0, edge_column="Edge ID" if "Edge ID" in df.columns else 1)
            check(incidences(K) == inc, "two-column dataframe round trip", label)
            hd = xgi.to_hypergraph_dict(H)
            if all(isinstance(x, (int, str)) for x in list(H.nodes) + list(H.edges)) and len({str(x) for x in H.nodes}) == H.num_nodes and len({str(x) for x in H.edges}) == H.num_edges and not sc:
                allint_n = all(isinstance(x, int) for x in H.nodes)
                allint_e = all(isinstance(x, int) for x in H.edges)
                if (allint_n or all(isinstance(x, str) for x in H.nodes)) and (allint_e or all(isinstance(x, str) for x in H.edges)):
                    K = xgi.from_hypergraph_dict(hd, nodetype=int if allint_n else None, edgetype=int if allint_e else None)
                    a, b = net_state(H, False), net_state(K, False)
                    check(a["E"] == b["E"] and a["nodes"] == b["nodes"] and a["NA"] == b["NA"] and a["EA"] == b["EA"] and a["net"] == b["net"], "hypergraph dict round trip (isolates, empty edges, attributes)", label, (a, b))
        be = xgi.to_bipartite_edgelist(H)
        K = xgi.from_bipartite_edgelist(be) if (not di and be) else None
        if K is not None:
            check(incidences(K) == inc, "bipartite edge list round trip", label)
        BG = xgi.to_bipartite_graph(H, index=True)
        G, nd, ed = BG
        G2 = nx.relabel_nodes(G, {**{k: ("n", v) for k, v in nd.items()}, **{k: ("e", v) for k, v in ed.items()}})
        K = xgi.from_bipartite_graph(G2)
        want = {(("n", t[0]), ("e", t[1])) + tuple(t[2:]) for t in inc}
        check(incidences(K) == want, "bipartite graph round trip", label, (sorted(incidences(K), key=repr)[:4], sorted(want, key=repr)[:4]))
        # vertex insertion order must not matter
        G3 = type(G2)()
        order = list(G2.nodes(data=True))
        random.Random(SEED).shuffle(order)
        for n, dd in reversed(order):
            G3.add_node(n, **dd)
        el = list(G2.edges)
        random.Random(SEED + 1).shuffle(el)
        G3.add_edges_from(el)
        try:
            K3 = xgi.from_bipartite_graph(G3)
            check(incidences(K3) == want, "bipartite graph conversion independent of vertex insertion order", label, sorted(incidences(K3), key=repr)[:4])
        except Exception as e:  # noqa
            check(False, "from_bipartite_graph raised on a reordered graph", label, repr(e))
        hif = xgi.to_hif_dict(H)
        K = xgi.from_hif_dict(json.loads(json.dumps(hif)))
        a, b = net_state(H, False), net_state(K, False)
        if all(isinstance(x, (int, str)) for x in list(H.nodes) + list(H.edges)):
            check(a["cls"] == b["cls"] and a["E"] == b["E"] and set(a["nodes"]) == set(b["nodes"]) and a["NA"] == b["NA"] and a["EA"] == b["EA"] and a["net"] == b["net"],
                  "HIF dict round trip (class, isolates, empty edges, all attributes)", label, ([a[k] == b[k] for k in ("cls", "E", "NA", "EA", "net")], a["net"], b["net"]))
        # class to class
        for tgt, conv in (("Hypergraph", xgi.to_hypergraph), ("DiHypergraph", None), ("SimplicialComplex", xgi.to_simplicial_complex)):
            if conv is None:
                continue
            if tgt == "SimplicialComplex" and (di or any(len(m) == 0 for m in (H._edge.values() if not di else []))):
                continue
            try:
                K = conv(H)
            except Exception as e:  # noqa
                check(False, "class conversion raised", label + "->" + tgt, repr(e))
                continue
            src_sets = [frozenset(v["in"] | v["out"]) if di else frozenset(v) for v in H._edge.values()]
            got_sets = [frozenset(v) for v in K._edge.values()]
            ok = set(K.nodes) == set(H.nodes) and all(dict(K._node_attr[n]) == dict(H._node_attr[n]) for n in H.nodes) and dict(K._net_attr) == dict(H._net_attr)
            if tgt == "Hypergraph":
                ok = ok and sorted(map(sorted_repr, got_sets)) == sorted(map(sorted_repr, src_sets)) and all(dict(K._edge_attr[e]) == dict(H._edge_attr[e]) for e in H.edges if e in K._edge)
            else:
                ok = ok and all(s in got_sets for s in src_sets if s) and all(frozenset(c) in got_sets for s in src_sets for r in range(2, len(s)) for c in itertools.combinations(s, r))
            check(ok, "%s -> %s keeps nodes, attributes (all three levels) and member sets" % (type(H).__name__, tgt), label, (dict(K._net_attr), dict(H._net_attr)))
    return "4 attribute-rich networks (H, DH, SC, with isolates / empty edges / multi-edges / explicit ids) + 120 exhaustive small hypergraphs, every converter pair"


def sorted_repr(s):
    return sorted(map(repr, s))


# ------------------------------------------------------------------ C11
def c11():
    tmp = tempfile.mkdtemp(prefix="xgi-c11-", dir="/var/tmp")
    try:
        for label, H in rich_networks():
            p = os.path.join(tmp, "a.json")
            xgi.write_hif(H, p)
            K = xgi.read_hif(p)
            a, b = net_state(H, False), net_state(K, False)
            check(a["cls"] == b["cls"] and a["E"] == b["E"] and set(a["nodes"]) == set(b["nodes"]) and a["NA"] == b["NA"] and a["EA"] == b["EA"] and a["net"] == b["net"],
                  "write_hif/read_hif round trip", label, [a[k] == b[k] for k in ("cls", "E", "NA", "EA", "net")])
        pool = [(l, h) for l, h in small_hypergraphs(False)][:150] + [("H-int", xgi.Hypergraph([[0, 1, 2], [2, 3], [3], [0, 1, 2]]))]
        for label, H in pool:
            if all(isinstance(x, int) for x in list(H.nodes) + list(H.edges)):
                p = os.path.join(tmp, "b.json")
                H["name"] = "n"
                xgi.write_json(H, p)
                K = xgi.read_json(p, nodetype=int, edgetype=int)
                a, b = net_state(H, False), net_state(K, False)
                check(a["E"] == b["E"] and a["nodes"] == b["nodes"] and a["NA"] == b["NA"] and a["EA"] == b["EA"] and a["net"] == b["net"], "write_json/read_json round trip", label)
                for delim in (" ", ",", "\t", ";"):
                    if H.num_edges and all(len(m) for m in H._edge.values()):
                        p = os.path.join(tmp, "e.txt")
                        xgi.write_edgelist(H, p, delimiter=delim)
                        K = xgi.read_edgelist(p, delimiter=delim, nodetype=int)
                        check([set(m) for m in K.edges.members()] == [set(m) for m in H.edges.members()], "edge-list text round trip (%r)" % delim, label)
                        p = os.path.join(tmp, "be.txt")
                        xgi.write_bipartite_edgelist(H, p, delimiter=delim)
                        K = xgi.read_bipartite_edgelist(p, delimiter=delim, nodetype=int, edgetype=int)
                        check(incidences(K) == incidences(H), "bipartite edge-list text round trip (%r)" % delim, label, (sorted(incidences(K))[:5], sorted(incidences(H))[:5]))
                if H.num_edges and H.num_nodes and all(len(m) for m in H._edge.values()) and not any(len(H._node[n]) == 0 for n in H.nodes):
                    p = os.path.join(tmp, "i.txt")
                    xgi.write_incidence_matrix(H, p)
                    try:
                        K = xgi.read_incidence_matrix(p)
                        pn = {n: i for i, n in enumerate(H.nodes)}
                        pe = {e: j for j, e in enumerate(H.edges)}
                        want = {(pn[n], pe[e]) for n, e in incidences(H)}
                        check(incidences(K) == want, "incidence-matrix text round trip (labels = row / column positions)", label, (sorted(incidences(K)), sorted(want)))
                    except Exception as e:  # noqa
                        check(False, "read_incidence_matrix raised", label, "%s shape=%s" % (repr(e), (H.num_nodes, H.num_edges)))
        # collection
        Hs = {"one": xgi.Hypergraph([[1, 2], [2, 3]]), "two": xgi.Hypergraph([[5, 6, 7]])}
        for nm, h in Hs.items():
            h["name"] = nm
        try:
            xgi.write_hif_collection(Hs, tmp, collection_name="col")
            back = xgi.read_hif_collection(os.path.join(tmp, "col_collection_information.json"))
            check(set(back) == set(Hs) and all(net_state(back[k], False)["E"] == net_state(Hs[k], False)["E"] for k in Hs), "write_hif_collection/read_hif_collection", "collection")
        except Exception as e:  # noqa
            check(False, "hif collection raised", "collection", repr(e))
    finally:
        import shutil
        shutil.rmtree(tmp, ignore_errors=True)
    return "HIF for the 4 attribute-rich networks; JSON, edge-list, bipartite edge-list (4 delimiters) and incidence-matrix files for 150 small integer-labelled hypergraphs incl. single-node / single-edge ones"


# ------------------------------------------------------------------ C19
def c19():
    for label, H in [(l, h) for l, h in small_hypergraphs(THOROUGH)] + [x for x in rich_networks() if isinstance(x[1], xgi.Hypergraph) and not isinstance(x[1], xgi.SimplicialComplex)]:
        nodes, edges = list(H.nodes), list(H.edges)
        E = {e: set(m) for e, m in H._edge.items()}
        Nn = {n: set(m) for n, m in H._node.items()}
        rng = random.Random(SEED + len(label))
        for _ in range(2):
            ns = set(rng.sample(nodes, rng.randint(0, len(nodes)))) if nodes else set()
            es = set(rng.sample(edges, rng.randint(0, len(edges)))) if edges else set()
            sub = xgi.subhypergraph(H, nodes=ns, edges=es)
            check(set(sub.edges) == {e for e in es if E[e] <= ns} and all(set(sub._edge[e]) == E[e] for e in sub.edges) and set(sub.nodes) == ns and sub.is_frozen,
                  "subhypergraph keeps exactly the requested edges inside the requested nodes, frozen", label, (sorted(sub.edges, key=repr), ns, es))
            sub2 = xgi.subhypergraph(H, nodes=ns, keep_isolates=False)
            check(set(sub2.nodes) == {n for n in ns if any(n in E[e] and E[e] <= ns for e in E)}, "subhypergraph(keep_isolates=False)", label)
        if edges:
            sub = xgi.subhypergraph(H, nodes=nodes, edges=[])
            check(sub.num_edges == 0 and set(sub.nodes) == set(nodes), "subhypergraph with an empty edge selection keeps no edge", label)
            sub = xgi.subhypergraph(H, nodes=[], edges=edges)
            check(set(sub.nodes) == set() and set(sub.edges) == {e for e in edges if not E[e]}, "subhypergraph with an empty node selection", label, (list(sub.nodes), list(sub.edges)))
        Dl = H.dual()
        check(set(Dl.nodes) == set(edges) and set(Dl.edges) == set(nodes) and all(set(Dl._edge[n]) == Nn[n] for n in nodes), "dual exchanges nodes and edges", label)
        if all(Nn[n] for n in nodes) and all(E[e] for e in edges):
            DD = Dl.dual()
            check(set(DD.nodes) == set(nodes) and {e: set(m) for e, m in DD._edge.items()} == E, "dual is an involution without isolates / empty edges", label)
        K = xgi.Hypergraph([["x", "y"], [0, 1, "x"]])
        U = H << K
        check(set(U.nodes) == set(nodes) | {"x", "y", 0, 1} and sorted(map(sorted_repr, (set(m) for m in U._edge.values()))) == sorted(map(sorted_repr, list(E.values()) + [{"x", "y"}, {0, 1, "x"}])),
              "<< is the disjoint union of edges over the union of nodes", label)
        # right operand with an attributed isolated node, an explicit edge id that collides with the left operand's, and attributes on both sides
        K2 = xgi.Hypergraph()
        K2.add_node("lonely", colour="blue")
        K2.add_nodes_from([(n, {"side": "right"}) for n in nodes[:1]])
        K2.add_edge(["p", "q"], idx=(edges[0] if edges else 0), w=7)
        U2 = H << K2
        check(set(U2.nodes) == set(nodes) | {"lonely", "p", "q"} and U2.num_edges == len(edges) + 1
              and sorted(map(sorted_repr, (set(m) for m in U2._edge.values()))) == sorted(map(sorted_repr, list(E.values()) + [{"p", "q"}]))
              and U2._node_attr["lonely"].get("colour") == "blue" and all(U2._node_attr[n].get("side") == "right" for n in nodes[:1]),
              "<< keeps the isolated nodes and node attributes of the right operand and gives colliding edge ids fresh ones", label,
              (sorted(map(repr, U2.nodes)), list(U2._edge.items())[-2:]))
        if edges:
            mo = max(len(m) for m in E.values()) - 1
            for o in range(0, mo + 1):
                C = xgi.cut_to_order(H, o)
                check(set(C.edges) == {e for e in E if len(E[e]) <= o + 1} and set(C.nodes) == set(nodes), "cut_to_order keeps exactly the edges up to the order", label, o)
        if edges and len(nodes) <= 4 and all(isinstance(n, int) for n in nodes):
            Cm = xgi.complement(H)
            present = {frozenset(m) for m in E.values()}
            mx = max((len(m) for m in E.values()), default=0)
            want = {frozenset(c) for r in range(1, mx + 1) for c in itertools.combinations(nodes, r)} - present
            check({frozenset(m) for m in Cm._edge.values()} == want and len(Cm._edge) == len(want) and set(Cm.nodes) == set(nodes), "complement holds exactly the absent node sets up to the maximum size", label,
                  (sorted(map(sorted, (m for m in Cm._edge.values()))), sorted(map(sorted, want))))
        # relabelling
        R = xgi.convert_labels_to_integers(H, "old")
        check(list(R.nodes) == list(range(len(nodes))) and list(R.edges) == list(range(len(edges))), "integer relabelling uses 0..n-1 and 0..m-1", label)
        pos = {n: i for i, n in enumerate(nodes)}
        check(all(set(R._edge[j]) == {pos[n] for n in E[e]} for j, e in enumerate(edges)) and all(R._node_attr[i]["old"] == n for n, i in pos.items())
              and all(R._edge_attr[j]["old"] == e for j, e in enumerate(edges)), "integer relabelling is an isomorphism recording the old labels", label)
        # ... also when the nodes / edges already carry an attribute of that name (relabelling twice, cleanup after a relabelling)
        H2 = H.copy()
        H2.set_node_attributes({n: "stale" for n in nodes}, "old")
        H2.set_edge_attributes({e: "stale" for e in edges}, "old")
        R2 = xgi.convert_labels_to_integers(H2, "old")
        check(all(R2._node_attr[i]["old"] == n for n, i in pos.items()) and all(R2._edge_attr[j]["old"] == e for j, e in enumerate(edges)),
              "integer relabelling records the labels of the network it is given, whatever attributes are present", label, [dict(R2._node_attr[i]) for i in range(min(2, len(nodes)))])
        # largest component
        if nodes:
            comps = [set(c) for c in xgi.connected_components(H)]
            L = xgi.largest_connected_hypergraph(H)
            big = max(len(c) for c in comps)
            check(len(L.nodes) == big and set(L.nodes) in comps and {e: set(m) for e, m in L._edge.items()} == {e: m for e, m in E.items() if m <= set(L.nodes)},
                  "largest_connected_hypergraph is the sub-network induced by a largest component", label)
        # cleanup over all flag combinations
        for iso, sing, multi, conn, rel in itertools.product([False, True], repeat=5):
            try:
                C = H.cleanup(isolates=iso, singletons=sing, multiedges=multi, connected=conn, relabel=rel, in_place=False)
            except Exception as e:  # noqa
                check(False, "cleanup raised", label, (iso, sing, multi, conn, rel, repr(e)))
                continue
            Ce = [frozenset(m) for m in C._edge.values()]
            ok = True
            if not iso:
                ok = ok and all(len(C._node[n]) > 0 for n in C.nodes)
            if not sing:
                ok = ok and all(len(m) != 1 for m in Ce)
            if not multi:
                ok = ok and len(set(Ce)) == len(Ce)
            if conn and C.num_nodes:
                ok = ok and xgi.is_connected(C)
            if rel:
                ok = ok and list(C.nodes) == list(range(C.num_nodes)) and list(C.edges) == list(range(C.num_edges))
            check(ok, "cleanup delivers the requested guarantees", label, (iso, sing, multi, conn, rel))
            if not rel:
                # only deleting / merging: every surviving edge is an original member set
                check(all(m in {frozenset(x) for x in E.values()} for m in Ce) and set(C.nodes) <= set(nodes), "cleanup only deletes or merges", label, (iso, sing, multi, conn))
                if iso and sing and multi and not conn:
                    check({e: set(m) for e, m in C._edge.items()} == E and set(C.nodes) == set(nodes), "cleanup with everything allowed changes nothing", label)
    for label, S in rich_networks():
        if isinstance(S, xgi.SimplicialComplex):
            M = xgi.from_max_simplices(S)
            mx = {frozenset(S._edge[e]) for e in S.edges.maximal()}
            check({frozenset(m) for m in M._edge.values()} == mx and list(M.nodes) == list(S.nodes), "from_max_simplices keeps exactly the maximal simplices", label)
            for k in (1, 2):
                try:
                    Kk = xgi.k_skeleton(S, k)
                    check({frozenset(m) for m in Kk._edge.values()} == {frozenset(m) for m in S._edge.values() if len(m) <= k + 1}, "k_skeleton keeps exactly the simplices up to the order", label)
                except Exception:
                    pass
    return "every hypergraph of the C14 pool + attribute-rich ones; 2 random node/edge selections each; all 32 cleanup flag combinations"


# ------------------------------------------------------------------ C12
def dense(M):
    return M.toarray() if hasattr(M, "toarray") else np.asarray(M)


def c12():
    for label, H in small_hypergraphs(THOROUGH):
        nodes, edges = list(H.nodes), list(H.edges)
        E = {e: set(m) for e, m in H._edge.items()}
        orders = [None, 0, 1, 2, 3]
        for o in orders:
            sel_e = [e for e in edges if o is None or len(E[e]) == o + 1]
            for sparse in (True, False):
                I, rd, cd = xgi.incidence_matrix(H, order=o, sparse=sparse, index=True)
                I = dense(I)
                if not sel_e or not nodes:
                    check(I.shape == (0, 0) and rd == {} and cd == {}, "incidence matrix of nothing is empty", label, (o, I.shape))
                    continue
                ok = I.shape == (len(nodes), len(sel_e)) and [rd[i] for i in range(len(nodes))] == nodes and [cd[j] for j in range(len(sel_e))] == sel_e
                ok = ok and all(I[i, j] == (1 if rd[i] in E[cd[j]] else 0) for i in range(len(nodes)) for j in range(len(sel_e)))
                check(ok, "incidence matrix has a one exactly at member pairs (order=%s, sparse=%s)" % (o, sparse), label)
            for s_ in (1, 2):
                for weighted in (False, True):
                    As, ids = xgi.adjacency_matrix(H, order=o, sparse=True, s=s_, weighted=weighted, index=True)
                    Ad, idd = xgi.adjacency_matrix(H, order=o, sparse=False, s=s_, weighted=weighted, index=True)
                    As, Ad = dense(As), dense(Ad)
                    check(As.shape == Ad.shape and (As == Ad).all() and ids == idd, "sparse and dense adjacency agree (order=%s s=%s weighted=%s)" % (o, s_, weighted), label, (As.shape, Ad.shape))
                    if sel_e and nodes:
                        ok = Ad.shape == (len(nodes), len(nodes))
                        for i, a in enumerate(nodes):
                            for j, b in enumerate(nodes):
                                cnt = sum(1 for e in sel_e if a in E[e] and b in E[e])
                                want = 0 if i == j else ((cnt if weighted else 1) if cnt >= s_ else 0)
                                ok = ok and Ad[i, j] == want
                        check(ok, "adjacency entries = shared-edge counts (symmetric, zero diagonal) (order=%s s=%s weighted=%s)" % (o, s_, weighted), label)
                    else:
                        check(Ad.shape in ((0, 0), (len(nodes), len(nodes))) and not Ad.any(), "adjacency of nothing is zero/empty", label, (o, Ad.shape))
            K = xgi.degree_matrix(H, order=o)
            check(list(K) == [sum(1 for e in sel_e if n in E[e]) for n in nodes] if (sel_e and nodes) else not np.any(K), "degree vector (order=%s)" % o, label, K)
            if sel_e and nodes:
                for sparse in (True, False):
                    P, cd = xgi.intersection_profile(H, order=o, sparse=sparse, index=True)
                    P = dense(P)
                    check(all(P[i, j] == len(E[cd[i]] & E[cd[j]]) for i in range(len(sel_e)) for j in range(len(sel_e))), "intersection profile (order=%s sparse=%s)" % (o, sparse), label)
        if edges and nodes:
            Ws, Wd = dense(xgi.clique_motif_matrix(H, sparse=True)), dense(xgi.clique_motif_matrix(H, sparse=False))
            ok = (Ws == Wd).all() and all(Wd[i, j] == (0 if i == j else sum(1 for e in edges if a in E[e] and b in E[e])) for i, a in enumerate(nodes) for j, b in enumerate(nodes))
            check(ok, "clique motif matrix", label)
        for d in (1, 2, 3):
            sel_e = [e for e in edges if len(E[e]) == d + 1]
            for sparse in (True, False):
                for resc in (False, True):
                    try:
                        L = dense(xgi.laplacian(H, order=d, sparse=sparse, rescale_per_node=resc))
                    except Exception as e:  # noqa
                        check(False, "laplacian raised", label, (d, sparse, resc, repr(e)))
                        continue
                    if not sel_e or not nodes:
                        check(L.shape == (0, 0) or not L.any(), "laplacian of nothing", label, (d, L.shape))
                        continue
                    Kd = [sum(1 for e in sel_e if n in E[e]) for n in nodes]
                    ok = L.shape == (len(nodes), len(nodes))
                    for i, a in enumerate(nodes):
                        for j, b in enumerate(nodes):
                            adj = 0 if i == j else sum(1 for e in sel_e if a in E[e] and b in E[e])
                            want = (d * Kd[i] if i == j else 0) - adj
                            want = want / d if resc else want
                            ok = ok and abs(L[i, j] - want) < 1e-12
                    check(ok and np.allclose(L.sum(axis=1), 0) and np.allclose(L, L.T), "order-d Laplacian = d*K - A, zero row sums, symmetric (d=%s sparse=%s rescale=%s)" % (d, sparse, resc), label)
                    check(np.all(np.linalg.eigvalsh(L) > -1e-9), "order-d Laplacian positive semidefinite", label)
        if nodes:
            for sparse in (True, False):
                try:
                    Lm = dense(xgi.multiorder_laplacian(H, [1, 2], [1.0, 0.5], sparse=sparse))
                    check(Lm.shape == (len(nodes), len(nodes)) and np.allclose(Lm.sum(axis=1), 0) and np.allclose(Lm, Lm.T) and np.all(np.linalg.eigvalsh(Lm) > -1e-9),
                          "multiorder Laplacian: zero row sums, symmetric, PSD (sparse=%s)" % sparse, label)
                except Exception as e:  # noqa
                    check(False, "multiorder laplacian raised", label, repr(e))
                # textbook definition: sum over orders of w_d / <K_d> * L_d (orders without edges contribute nothing)
                for resc in (False, True):
                    orders_, ws_ = [1, 2, 3], [1.0, 0.5, 2.0]
                    want = np.zeros((len(nodes), len(nodes)))
                    for d_, w_ in zip(orders_, ws_):
                        se = [e for e in edges if len(E[e]) == d_ + 1]
                        if not se:
                            continue
                        Kd_ = np.array([sum(1 for e in se if n in E[e]) for n in nodes], dtype=float)
                        Ad_ = np.array([[0 if a == b else sum(1 for e in se if a in E[e] and b in E[e]) for b in nodes] for a in nodes], dtype=float)
                        Ld_ = d_ * np.diag(Kd_) - Ad_
                        if resc:
                            Ld_ = Ld_ / d_
                        want += w_ * Ld_ / Kd_.mean()
                    try:
                        got = dense(xgi.multiorder_laplacian(H, orders_, ws_, sparse=sparse, rescale_per_node=resc))
                        check(got.shape == want.shape and np.allclose(got, want), "multiorder Laplacian equals sum of w_d/<K_d> L_d (sparse=%s rescale=%s)" % (sparse, resc), label,
                              float(np.abs(got - want).max()) if got.shape == want.shape else got.shape)
                    except Exception as e:  # noqa
                        check(False, "multiorder laplacian raised", label, repr(e))
        if edges and nodes and all(H._node[n] for n in nodes) and all(E[e] for e in edges):
            Ls, Ld = dense(xgi.normalized_hypergraph_laplacian(H, sparse=True)), dense(xgi.normalized_hypergraph_laplacian(H, sparse=False))
            I = np.array([[1.0 if n in E[e] else 0.0 for e in edges] for n in nodes])
            Dv = I.sum(axis=1)
            De = I.sum(axis=0)
            want = np.eye(len(nodes)) - np.diag(Dv ** -0.5) @ I @ np.diag(1 / De) @ I.T @ np.diag(Dv ** -0.5)
            check(np.allclose(Ls, Ld) and np.allclose(Ld, want) and np.allclose(Ld, Ld.T) and np.all(np.linalg.eigvalsh(Ld) > -1e-9), "normalized Laplacian = textbook definition, symmetric PSD, sparse = dense", label)
        for d in (1, 2):
            sel_e = [e for e in edges if len(E[e]) == d + 1]
            try:
                B = xgi.adjacency_tensor(H, d, normalized=False)
            except Exception as e:  # noqa
                check(False, "adjacency tensor raised", label, repr(e))
                continue
            if sel_e and nodes:
                ok = B.shape == (len(nodes),) * (d + 1)
                for idx in itertools.product(range(len(nodes)), repeat=d + 1):
                    mem = {nodes[i] for i in idx}
                    want = 1 if len(mem) == d + 1 and any(E[e] == mem for e in sel_e) else 0
                    ok = ok and B[idx] == want
                check(ok, "adjacency tensor of order %d" % d, label)
    return "every hypergraph of the C14 pool x orders {None,0,1,2,3} x s {1,2} x weighted x sparse"


# ------------------------------------------------------------------ C13
def all_complexes(nverts):
    verts = list(range(nverts))
    faces = [frozenset(c) for r in range(2, nverts + 1) for c in itertools.combinations(verts, r)]
    seen = set()
    for k in range(0, 4):
        for gens in itertools.combinations(faces, k):
            closure = set()
            for g in gens:
                for r in range(2, len(g) + 1):
                    closure.update(frozenset(c) for c in itertools.combinations(sorted(g), r))
            key = frozenset(closure)
            if key in seen:
                continue
            seen.add(key)
            yield verts, sorted(closure, key=lambda f: (len(f), sorted(f)))


def c13():
    rng = random.Random(SEED)
    count = 0
    for nv in ((3, 4, 5) if THOROUGH else (3, 4)):
        for verts, faces in all_complexes(nv):
            for labeller in (lambda v: v, lambda v: "v%d" % v, lambda v: 10 - 2 * v, lambda v: [5, 1, 9, 3, 7][v], lambda v: [4, "b", 2, "a", 0][v]):
                count += 1
                if count % (1 if THOROUGH else 3) != 0 and labeller(1) != 1:
                    continue
                S = xgi.SimplicialComplex()
                S.add_nodes_from([labeller(v) for v in verts])
                ids = rng.sample(range(100, 400), len(faces))
                S.add_simplices_from([([labeller(v) for v in sorted(f)], i) for f, i in zip(faces, ids)])
                label = "complex %s labels %s" % ([sorted(f) for f in faces], labeller(1))
                orient_sets = [None, {e: rng.randint(0, 1) for e in list(S.edges) + list(S.nodes)}]
                maxd = max((len(f) for f in faces), default=1) - 1
                for ori in orient_sets:
                    Bs = {}
                    for k in range(1, maxd + 2):
                        try:
                            B, rd, cd = xgi.boundary_matrix(S, order=k, orientations=ori, index=True)
                        except Exception as e:  # noqa
                            check(False, "boundary_matrix raised", label, (k, repr(e)))
                            continue
                        B = dense(B)
                        Bs[k] = (B, rd, cd)
                        ksimp = [e for e in S.edges if len(S._edge[e]) == k + 1]
                        if not ksimp:
                            continue
                        ok = True
                        for j in range(B.shape[1]):
                            col = B[:, j]
                            nz = [i for i in range(B.shape[0]) if col[i] != 0]
                            simplex = set(S._edge[cd[j]])
                            rows_faces = set()
                            for i in nz:
                                r = rd[i]
                                rows_faces.add(frozenset(S._edge[r]) if k > 1 else frozenset([r]))
                            want = {frozenset(c) for c in itertools.combinations(simplex, k)}
                            ok = ok and len(nz) == k + 1 and all(abs(col[i]) == 1 for i in nz) and rows_faces == want
                        check(ok, "each column of the order-%d boundary matrix: k+1 entries of absolute value one at the faces" % k, label)
                    for k in range(1, maxd + 1):
                        if k in Bs and k + 1 in Bs and Bs[k][0].size and Bs[k + 1][0].size:
                            P = Bs[k][0] @ Bs[k + 1][0]
                            check(not P.any(), "boundary of boundary is zero (orders %d, %d)" % (k, k + 1), label, P.tolist())
                    for k in range(0, maxd + 1):
                        try:
                            L = dense(xgi.hodge_laplacian(S, order=k, orientations=ori))
                        except Exception as e:  # noqa
                            check(False, "hodge_laplacian raised", label, (k, repr(e)))
                            continue
                        if L.size:
                            check(np.allclose(L, L.T) and np.all(np.linalg.eigvalsh(L) > -1e-9), "Hodge Laplacian of order %d symmetric PSD" % k, label)
                            if k == 0:
                                ncomp = xgi.number_connected_components(S)
                                check(L.shape[0] - np.linalg.matrix_rank(L) == ncomp, "dim ker L0 = number of connected components", label, (L.shape, ncomp))
    return "all simplicial complexes generated by <= 3 faces on %s vertices, 3 label sets (sampled 1/3 in quick), default and one random orientation vector" % ("3,4,5" if THOROUGH else "3,4")


# ------------------------------------------------------------------ C15
def c15():
    for label, H0 in small_hypergraphs(THOROUGH):
        # the property is about hypergraphs without repeated edges and with orderable labels
        seen, el = set(), []
        for m in H0._edge.values():
            f = frozenset(m)
            if f and f not in seen:
                seen.add(f)
                el.append(sorted(m, key=repr) if not all(isinstance(x, int) for x in m) else sorted(m))
        if not el or not all(isinstance(x, int) for e in el for x in e):
            continue
        # second variant: labels whose set iteration order differs from sorted order (ints >= 8 mixed with small ones)
        MAP = [1, 8, 9, 16, 3, 10, 12, 20, 24, 2]
        variants = [(label, el)]
        if all(0 <= x < len(MAP) for e in el for x in e):
            variants.append((label + " relabelled", [[MAP[x] for x in e] for e in el]))
        for label, el in variants:
            _c15_one(label, el)
    return "every duplicate-free integer-labelled hypergraph of the C14 pool (also relabelled with integers whose set order is not sorted) x min_size {1,2} x exclude_min_size, plus its downward closure"


def _c15_one(label, el):
    if True:
        H = xgi.Hypergraph(el)
        edges = {frozenset(e) for e in el}
        for min_size in (1, 2):
            for excl in (True, False):
                elig = [e for e in edges if len(e) >= min_size + excl]
                maximal = [e for e in edges if not any(e < f for f in edges)]
                maxel = [e for e in maximal if len(e) >= min_size + excl]
                def subs(e, lo=min_size):
                    return {frozenset(c) for r in range(lo, len(e)) for c in itertools.combinations(sorted(e), r)}
                # simplicial fraction
                sf = xgi.simplicial_fraction(H, min_size, excl)
                if elig:
                    want = sum(1 for e in elig if subs(e) <= edges) / len(elig)
                    check(abs(sf - want) < 1e-12, "simplicial fraction = share of eligible edges all of whose eligible subsets are edges", label, (min_size, excl, sf, want))
                else:
                    check(sf != sf, "simplicial fraction undefined without eligible edges", label, sf)
                # edit distance (unnormalised) = number of missing node sets inside some maximal edge
                sed = xgi.simplicial_edit_distance(H, min_size, excl, normalize=False)
                if maxel:
                    missing = set()
                    for e in maxel:
                        missing |= {s_ for s_ in subs(e) if s_ not in edges}
                    check(sed == len(missing), "simplicial edit distance = number of missing subfaces of maximal edges", label, (min_size, excl, sed, len(missing)))
                else:
                    check(sed != sed, "edit distance undefined without maximal eligible edges", label, sed)
                mfd = xgi.mean_face_edit_distance(H, min_size, excl)
                if maxel:
                    terms = []
                    for e in maxel:
                        al = subs(e)
                        terms.append((len([s_ for s_ in al if s_ not in edges]) / len(al)) if al else 0)
                    want = sum(terms) / len(maxel)
                    check(abs(mfd - want) < 1e-12, "mean face edit distance = average missing-subface share over maximal edges", label, (min_size, excl, mfd, want))
                for name, val in (("simplicial_fraction", sf), ("edit_simpliciality", xgi.edit_simpliciality(H, min_size, excl)), ("face_edit_simpliciality", xgi.face_edit_simpliciality(H, min_size, excl))):
                    check(val != val or (-1e-12 <= val <= 1 + 1e-12), "%s lies in [0, 1] or is NaN" % name, label, (min_size, excl, val))
        # downward closed hypergraphs score 1
        closed = set()
        for e in edges:
            closed |= {frozenset(c) for r in range(1, len(e) + 1) for c in itertools.combinations(sorted(e), r)}
        Hc = xgi.Hypergraph([sorted(e) for e in closed])
        for fn in (xgi.simplicial_fraction, xgi.edit_simpliciality, xgi.face_edit_simpliciality):
            v = fn(Hc)
            check(v != v or abs(v - 1) < 1e-12, "%s = 1 on a downward-closed hypergraph" % fn.__name__, label, v)


# ------------------------------------------------------------------ C16
def c16():
    from xgi.generators.uniform import _index_to_edge_comb, _index_to_edge_partition, _index_to_edge_prod
    NB = 9 if THOROUGH else 7
    for n in range(1, NB + 1):
        for m in range(1, min(n, 5) + 1):
            combs = [list(c) for c in itertools.combinations(range(n), m)]
            got = [list(_index_to_edge_comb(i, n, m)) for i in range(math.comb(n, m))]
            check(got == combs, "_index_to_edge_comb is the bijection onto combinations (lexicographic)", (n, m), got[:5])
    for n in range(1, 6):
        for m in range(1, 4):
            got = [tuple(_index_to_edge_prod(i, n, m)) for i in range(n ** m)]
            check(got == list(itertools.product(range(n), repeat=m)), "_index_to_edge_prod is the bijection onto tuples", (n, m), got[:5])
    for sizes in ([2, 3], [1, 4, 2], [3, 3], [2, 1, 2, 2]):
        m = len(sizes)
        tot = 1
        for x in sizes:
            tot *= x
        got = [tuple(_index_to_edge_partition(i, sizes, m)) for i in range(tot)]
        check(got == list(itertools.product(*[range(x) for x in sizes])), "_index_to_edge_partition is the bijection onto block products", sizes, got[:5])

    def basic(H, n, label, sizes=None, exact=None, norepeat=False):
        E = [frozenset(m) for m in H._edge.values()]
        ok = list(H.nodes) == list(range(n)) or set(H.nodes) == set(range(n))
        check(ok, "generated network has exactly the requested node set", label, list(H.nodes))
        check(all(m <= set(H.nodes) for m in E), "every edge is a set of existing nodes", label)
        if exact is not None:
            check(all(len(m) == exact for m in E), "uniform model: every edge has exactly m nodes", label, sorted(map(len, E)))
        if sizes is not None:
            check(all(len(m) in sizes for m in E), "every edge has an allowed size", label, sorted(map(len, E)))
        if norepeat:
            check(len(set(E)) == len(E), "no repeated edges", label)
        for n_ in H.nodes:
            pass
        check(all((x in H._edge[e]) for x in H.nodes for e in H._node[x]) and all((e in H._node[x]) for e in H.edges for x in H._edge[e]), "generated network is two-way consistent", label)

    seeds = range(SEED, SEED + (6 if THOROUGH else 3))
    for sd in seeds:
        for n in (1, 4, 7):
            for ps in ([0.5], [0.3, 0.2], [1.0, 0.0], [0.0, 1.0], [1.0, 1.0]):
                if len(ps) + 1 > n:
                    continue
                for gen in (xgi.fast_random_hypergraph, xgi.random_hypergraph):
                    label = (gen.__name__, n, ps, sd)
                    try:
                        H = gen(n, ps, seed=sd)
                    except Exception as e:  # noqa
                        check(False, "random generator raised", label, repr(e))
                        continue
                    basic(H, n, label, sizes=set(range(2, len(ps) + 2)), norepeat=True)
                    for i, p in enumerate(ps):
                        cnt = sum(1 for m in H._edge.values() if len(m) == i + 2)
                        if p == 0:
                            check(cnt == 0, "probability 0 yields no edge of that order", label, (i, cnt))
                        if p == 1:
                            check(cnt == math.comb(n, i + 2), "probability 1 yields all edges of that order", label, (i, cnt))
            for m in (2, 3):
                if m > n:
                    continue
                for p in (0.0, 0.3, 1.0):
                    for multi in (False, True):
                        label = ("uniform_erdos_renyi_hypergraph", n, m, p, multi, sd)
                        try:
                            H = xgi.uniform_erdos_renyi_hypergraph(n, m, p, multiedges=multi, seed=sd)
                        except Exception as e:  # noqa
                            check(False, "ER generator raised", label, repr(e))
                            continue
                        basic(H, n, label, exact=m, norepeat=not multi)
                        if p == 0:
                            check(H.num_edges == 0, "probability 0 yields no edges", label)
                        if p == 1 and not multi:
                            check(H.num_edges == math.comb(n, m), "probability 1 yields every edge once", label, H.num_edges)
        for m, sizes, pv in ((2, [2, 2], None), (2, [3, 1], None), (3, [2, 2], None)):
            n = sum(sizes)
            for val in (0.0, 0.4, 1.0):
                pt = np.full((len(sizes),) * m, val)
                label = ("uniform_HSBM", n, m, sizes, val, sd)
                try:
                    H = xgi.uniform_HSBM(n, m, pt, sizes, seed=sd)
                except Exception as e:  # noqa
                    check(False, "uniform_HSBM raised", label, repr(e))
                    continue
                basic(H, n, label, exact=m)
                if val == 0:
                    check(H.num_edges == 0, "HSBM probability 0 yields no edges", label)
        for (n, m, k) in ((6, 2, 2), (8, 3, 2)):
            label = ("uniform_HPPM", n, m, k, sd)
            try:
                H = xgi.uniform_HPPM(n, m, k, 0.5, seed=sd)
                basic(H, n, label, exact=m)
            except Exception as e:  # noqa
                check(False, "uniform_HPPM raised", label, repr(e))
        kdeg = {0: 2, 1: 2, 2: 1, 3: 1, 4: 2, 5: 1}
        for m in (2, 3):
            kk = dict(kdeg)
            H = xgi.uniform_hypergraph_configuration_model(kk, m, seed=sd)
            label = ("configuration_model", m, sd)
            basic(H, 6, label, exact=m)
            check(all(len(H._node[x]) <= kk[x] for x in H.nodes), "configuration model never exceeds the prescribed degrees", label, {x: len(H._node[x]) for x in H.nodes})
        k1 = {0: 2, 1: 2, 2: 1, 3: 1}
        k2 = {0: 3, 1: 2, 2: 1}
        H = xgi.chung_lu_hypergraph(k1, k2, seed=sd)
        check(set(H.nodes) == set(k1) and set(H.edges) <= set(k2), "chung_lu node / edge sets", ("chung_lu", sd))
        S = xgi.random_simplicial_complex(6, [0.5, 0.4], seed=sd)
        E = {frozenset(m) for m in S._edge.values()}
        check(all(frozenset(c) in E for m in E for r in range(2, len(m)) for c in itertools.combinations(m, r)) and set(S.nodes) == set(range(6)), "random simplicial complex is downward closed on the requested nodes", ("rsc", sd))
        G = nx.erdos_renyi_graph(7, 0.6, seed=sd)
        for mo in (1, 2, 3):
            S = xgi.flag_complex(G, max_order=mo)
            E = {frozenset(m) for m in S._edge.values()}
            want = {frozenset(c) for c in nx.enumerate_all_cliques(G) if 2 <= len(c) <= mo + 1}
            check(E == want and set(S.nodes) == set(G.nodes), "flag complex = cliques of the graph up to the maximum order", ("flag", mo, sd), (len(E), len(want)))
        S2 = xgi.flag_complex_d2(G)
        want = {frozenset(c) for c in nx.enumerate_all_cliques(G) if 2 <= len(c) <= 3}
        check({frozenset(m) for m in S2._edge.values()} == want, "flag_complex_d2 = edges and triangles", ("flag_d2", sd))
        edges_only = {frozenset(e) for e in G.edges}
        for p2 in (0, 0.0, 1, 1.0):
            S2p = xgi.flag_complex_d2(G, p2=p2, seed=sd)
            got = {frozenset(m) for m in S2p._edge.values()}
            check(got == (edges_only if p2 == 0 else want), "flag_complex_d2 with triangle probability %r keeps %s triangles" % (p2, "no" if p2 == 0 else "all"), ("flag_d2", p2, sd), (len(got), len(want), len(edges_only)))
        for ps in ([0.0], [1.0], [1.0, 0.0]):
            Sp = xgi.flag_complex(G, max_order=len(ps) + 1, ps=ps, seed=sd)
            got = {frozenset(m) for m in Sp._edge.values()}
            wantp = {frozenset(c) for c in nx.enumerate_all_cliques(G) if len(c) == 2 or any(len(c) == i + 3 and ps[i] == 1.0 for i in range(len(ps)))}
            wantp = {c for c in wantp if all(frozenset(f) in wantp for r in range(2, len(c)) for f in itertools.combinations(c, r))}
            check(got == wantp, "flag_complex with probabilities in {0, 1}", ("flag_ps", ps, sd), (len(got), len(wantp)))
        for N_, p_ in ((7, 0.6), (5, 0.0), (1, 0.5), (6, 0.15)):
            Sr = xgi.random_flag_complex(N_, p_, max_order=2, seed=sd)
            E = {frozenset(m) for m in Sr._edge.values()}
            check(all(frozenset(c) in E for m in E for r in range(2, len(m)) for c in itertools.combinations(m, r)), "random flag complex is downward closed", ("rflag", N_, p_, sd))
            check(set(Sr.nodes) == set(range(N_)), "random flag complex has exactly the requested node set", ("rflag", N_, p_, sd), list(Sr.nodes))
            Sr2 = xgi.random_flag_complex_d2(N_, p_, seed=sd)
            check(set(Sr2.nodes) == set(range(N_)), "random_flag_complex_d2 has exactly the requested node set", ("rflag_d2", N_, p_, sd), list(Sr2.nodes))
        Sx = xgi.random_simplicial_complex(5, [0.0, 0.0], seed=sd)
        check(set(Sx.nodes) == set(range(5)) and Sx.num_edges == 0, "random simplicial complex with probability 0", ("rsc0", sd))
    for N in (1, 3, 5):
        for order in (None, 1, 2):
            for mo in (None, 2):
                if (order is None) == (mo is None):
                    continue
                for sing in (False, True):
                    H = xgi.complete_hypergraph(N, order=order, max_order=mo, include_singletons=sing)
                    if order is not None:
                        sizes = [order + 1]
                    else:
                        sizes = list(range(1 if sing else 2, mo + 2))
                    want = sorted(tuple(c) for r in sizes for c in itertools.combinations(range(N), r))
                    got = sorted(tuple(sorted(m)) for m in H._edge.values())
                    check(got == want and list(H.nodes) == list(range(N)), "complete hypergraph contains each admissible node set exactly once", (N, order, mo, sing), (len(got), len(want)))
    for n in (1, 3):
        H = xgi.trivial_hypergraph(n)
        check(list(H.nodes) == list(range(n)) and H.num_edges == 0, "trivial hypergraph", n)
    H = xgi.ring_lattice(8, 2, 2, 1)
    basic(H, 8, "ring_lattice", exact=2)
    H = xgi.sunflower(3, 1, 4)
    check(all(len(m) == 4 for m in H._edge.values()) and H.num_edges == 3, "sunflower petals", "sunflower")
    H = xgi.star_clique(4, 3, 2)
    check(H.num_nodes == 7, "star_clique node count", "star_clique")
    return "index decodings exhaustively for n <= %d, m <= 5 (comb), n <= 5, m <= 3 (prod), 4 block shapes; generators on a fixed parameter grid x %d seeds" % (NB, len(list(seeds)))


# ------------------------------------------------------------------ C05: duplicate merging against a transcription of its documentation
def c05():
    """merge_duplicate_edges is verified at invariant level only (its value computation is abstracted, DESIGN 11.4); here its documented
    result - rename rules, merge rules, multiplicity - is compared with a direct transcription on hypergraphs whose duplicate ids were
    inserted in every order."""
    import copy as _copy
    groups_pool = [
        [({1, 2}, [7, 3, 5]), ({3, 4, 5}, [2, 9]), ({1}, [4])],
        [({"a", "b"}, [1, 0]), ({"b"}, [6, 8, 2])],
        [({1, 2, 3}, [0]), ({2, 3}, [1])],
        [({1, 2}, [10, 4]), (set(), [3, 1])],
    ]
    attr_of = lambda i: [{"color": "blue"}, {"color": "red", "weight": 2}, {"color": "blue", "name": "t"}, {}][i % 4]
    for gi, groups in enumerate(groups_pool):
        ids = [i for _, g in groups for i in g]
        for perm in itertools.islice(itertools.permutations(ids), 0, 24 if not THOROUGH else 720):
            H = xgi.Hypergraph()
            H.add_node("iso", k=1)
            mem = {i: m for m, g in groups for i in g}
            for i in perm:
                H.add_edge(mem[i], idx=i, **attr_of(i))
            label = "dup-groups %d, insertion order %s" % (gi, list(perm))
            for rename, rule, mult in itertools.product(("first", "tuple", "new"), ("first", "union", "intersection"), (None, "mult")):
                G = H.copy()
                before_uid = max(ids) + 1
                E0 = {e: set(m) for e, m in G._edge.items()}
                A0 = _copy.deepcopy(dict(G._edge_attr))
                N0 = _copy.deepcopy(dict(G._node_attr))
                G.merge_duplicate_edges(rename=rename, merge_rule=rule, multiplicity=mult)
                want_members, want_attrs, fresh = {}, {}, 0
                for m, g in groups:
                    if len(g) == 1:
                        want_members[g[0]] = set(m)
                        want_attrs[g[0]] = A0[g[0]]
                        continue
                    sg = sorted(g)
                    if rename == "first":
                        nid = sg[0]
                    elif rename == "tuple":
                        nid = tuple(sg)
                    else:
                        nid = ("NEW", fresh)
                        fresh += 1
                    if rule == "first":
                        at = dict(A0[sg[0]])
                    else:
                        fields = {f for i in g for f in A0[i]}
                        sets = {f: {A0[i].get(f) for i in g} for f in fields}
                        at = sets if rule == "union" else {f: (next(iter(v)) if len(v) == 1 else None) for f, v in sets.items()}
                    if mult:
                        at[mult] = len(g)
                    want_members[nid] = set(m)
                    want_attrs[nid] = at
                got = {e: set(m) for e, m in G._edge.items()}
                if rename == "new":
                    # fresh ids: not among the old ids, at or above the counter; compare up to their names
                    newids = [e for e in got if e not in E0]
                    ok_ids = all(isinstance(e, int) and e >= before_uid for e in newids) and len(newids) == fresh
                    canon = lambda v: tuple(sorted(map(repr, v))) if isinstance(v, (set, frozenset)) else v
                    norm = lambda d: sorted(((sorted_repr(v) if isinstance(v, set) else repr(sorted(((f, canon(x)) for f, x in v.items()), key=repr))) for k, v in d.items() if k in newids or (isinstance(k, tuple) and k and k[0] == "NEW")))
                    ok = ok_ids and {k: v for k, v in got.items() if k not in newids} == {k: v for k, v in want_members.items() if not (isinstance(k, tuple) and k and k[0] == "NEW")} \
                        and norm(got) == norm(want_members) and norm(dict(G._edge_attr)) == norm(want_attrs)
                else:
                    ok = got == want_members and dict(G._edge_attr) == want_attrs
                check(ok, "merge_duplicate_edges yields the documented ids, members and attributes (%s / %s / %s)" % (rename, rule, mult), label,
                      (sorted(got.items(), key=repr), sorted(dict(G._edge_attr).items(), key=repr)))
                check(dict(G._node_attr) == N0 and set(G.nodes) == set(H.nodes) and all(set(G._node[n]) == {e for e, m in got.items() if n in m} for n in G.nodes),
                      "merge_duplicate_edges leaves nodes and node attributes alone and keeps the incidence two-way", label)
    return "4 families of duplicate groups x up to %d insertion orders of the explicit ids x 3 rename rules x 3 merge rules x multiplicity on/off" % (24 if not THOROUGH else 720)


# ------------------------------------------------------------------ C03: simplicial invariants after short histories of the complex's own mutators
def _sinv(S):
    E = {e: frozenset(m) for e, m in S._edge.items()}
    Nn = {n: set(m) for n, m in S._node.items()}
    two_way = all((n in Nn and e in Nn[n]) for e, m in E.items() for n in m) and all((e in E and n in E[e]) for n, m in Nn.items() for e in m)
    recs = set(S._node_attr) == set(Nn) and set(S._edge_attr) == set(E)
    sets = set(E.values())
    closed = all(frozenset(c) in sets for m in sets for r in range(2, len(m)) for c in itertools.combinations(sorted(m, key=repr), r))
    return dict(two_way=two_way and recs, nonempty=all(len(m) > 0 for m in E.values()), dupfree=len(sets) == len(E), closed=closed)


def c03():
    tri, tri2 = [1, 2, 3], [4, 3, 2]
    bulk = {
        "lists": lambda: [list(tri), list(tri2)],
        "lists-reversed-overlap": lambda: [[3, 2, 1], [2, 3, 4]],
        "with-ids": lambda: [(list(tri), "a"), (list(tri2), "b")],
        "with-int-ids": lambda: [(list(tri), 1), (list(tri2), 0)],
        "with-attrs": lambda: [(list(tri), {"w": 1}), (list(tri2), {"w": 2})],
        "ids-and-attrs": lambda: [(list(tri), 5, {"w": 1}), (list(tri2), 2, {})],
        "dict": lambda: {"a": list(tri), "b": list(tri2)},
        "dict-int-ids": lambda: {3: [1, 2, 3, 4], 0: [4, 3, 5]},
        "dict-tuples": lambda: {"a": (1, 2, 3), "b": (3, 2, 4), "c": (2, 3)},
        "one-shot-members": lambda: [iter(tri), iter(tri2)],
        "existing-face-first": lambda: [[2, 3], [1, 2, 3], [3, 2]],
        "tetra": lambda: [[1, 2, 3, 4], [3, 4, 5]],
        "with-empty-and-single": lambda: [[], [7], [1, 2]],
    }
    starts = {"empty": lambda: xgi.SimplicialComplex(), "triangle": lambda: xgi.SimplicialComplex([[2, 3, 9]]), "edge-2-3": lambda: xgi.SimplicialComplex([[3, 2]])}

    def audit(S, what, label):
        r = _sinv(S)
        for k, v in r.items():
            check(v, "complex stays %s after %s" % ({"two_way": "two-way consistent", "nonempty": "free of empty simplices", "dupfree": "duplicate-free", "closed": "downward closed"}[k], what), label,
                  sorted((repr(e), sorted(m, key=repr)) for e, m in S._edge.items())[:12])
        sets = {frozenset(m) for m in S._edge.values()}
        nodes = sorted(S._node, key=repr)[:6]
        check(all(S.has_simplex(c) == (frozenset(c) in sets) for r_ in range(1, 4) for c in itertools.combinations(nodes, r_)), "has_simplex answers membership exactly after %s" % what, label)

    for sl, mk in starts.items():
        for bl, arg in bulk.items():
            for mo in (None, 1, 2):
                S = mk()
                before = set(S._edge)
                label = "%s + add_simplices_from(%s, max_order=%s)" % (sl, bl, mo)
                try:
                    S.add_simplices_from(arg(), max_order=mo)
                except Exception as e:  # noqa
                    # which exception a malformed bulk argument raises is not C03's business; the state it leaves is
                    r = _sinv(S)
                    check(r["two_way"] and r["nonempty"] and r["dupfree"], "complex consistent after a rejected bulk call", label)
                    continue
                audit(S, "a bulk addition", label)
                if mo is not None:
                    check(all(len(S._edge[e]) <= mo + 1 for e in set(S._edge) - before), "simplices added under a maximum order never exceed it", label)
                # second step on top: single additions with explicit ids, removals, node removal, close
                for step in ("add-idx-small", "add-existing-face", "remove-first", "remove-node", "weighted"):
                    T = S.copy()
                    lab2 = label + " ; " + step
                    try:
                        if step == "add-idx-small":
                            T.add_simplex([6, 7, 8], idx=max([e for e in T._edge if isinstance(e, int)], default=-1) + 1)
                        elif step == "add-existing-face":
                            T.add_simplex([3, 2], idx="dup")
                        elif step == "remove-first" and T._edge:
                            e0 = list(T._edge)[0]
                            m0 = frozenset(T._edge[e0])
                            old = {e: frozenset(m) for e, m in T._edge.items()}
                            T.remove_simplex_id(e0)
                            check(set(T._edge) == {e for e, m in old.items() if not m0 <= m}, "removing a simplex removes exactly it and the simplices containing it", lab2)
                        elif step == "remove-node" and T._node:
                            T.remove_node(sorted(T._node, key=repr)[0])
                        elif step == "weighted":
                            T.add_weighted_simplices_from([(5, 2, 3, 0.5), (3, 2, 1.5)])
                    except Exception:  # noqa
                        pass
                    audit(T, step, lab2)
    return "3 start complexes x 13 bulk inputs (five formats, overlapping / reversed / one-shot / nested members) x max_order in {None,1,2}, each followed by 5 single edits"

PROPS = {"C03": c03, "C05": c05, "C15": c15, "C16": c16, "C12": c12, "C13": c13, "C14": c14, "C09": c09, "C10": c10, "C11": c11, "C19": c19}


def main():
    with warnings.catch_warnings():
        warnings.simplefilter("ignore")
        bound = PROPS[PROP]()
    json.dump({"property": PROP, "checks": N[0], "distinct": len(CASES), "violations": V, "bound": bound}, sys.stdout)


if __name__ == "__main__":
    main()
