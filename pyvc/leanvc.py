"""Lean back end for the pure integer decoders of xgi/generators/uniform.py (C16: "the index-to-edge decodings used
for skip sampling are bijections onto ... tuples and block products").

On every run the *return expression* of the real function is translated, mechanically, from its AST into a Lean 4
definition over `Nat` (pyvc/lean/decode_theorems.lean holds the spec functions and the proofs, which are checked by
Lean's kernel against that freshly generated definition).  What the translation assumes / drops is listed in
ASSUMPTIONS and DROPS below and copied into the evidence.  A changed function body yields a different definition;
the proofs then fail and the obligations are *undecided* (a failed proof is not a refutation) unless the bounded
oracle exhibits a failing index, in which case that witness is the violation.
"""
import ast
import os
import re
import subprocess
import time

from . import extract

ROOT = os.path.dirname(os.path.dirname(os.path.abspath(__file__)))
UNIFORM = "xgi/generators/uniform.py::"
TARGETS = {  # function -> (lean def name, parameter sorts)
    "_index_to_edge_prod": ("decode_prod", [("index", "Nat"), ("n", "Nat"), ("m", "Nat")]),
    "_index_to_edge_partition": ("decode_part", [("index", "Nat"), ("partition_sizes", "List Nat"), ("m", "Nat")]),
}
ASSUMPTIONS = [
    "arguments of the decoders are non-negative Python ints (index, n, m) / a sequence of non-negative ints (partition_sizes): "
    "on those, Python's // and % coincide with Lean's Nat division and remainder, ** with ^",
    "numpy integer arithmetic in np.prod / the int64 products is treated as mathematical (no overflow)",
    "range(k) enumerates 0..k-1 and range(k - 1, -1, -1) enumerates k-1..0 (k >= 0); int(x) is the identity on integers",
]
DROPS = [
    "a leading `if <cond>: warnings.warn(...)` statement (its only effect is a warning; the theorems assume the index is in range)",
    "the `try: ... except KeyError: raise Exception(...)` wrapper around the return of _index_to_edge_partition (no KeyError can arise on a list / array)",
]


class Untranslatable(Exception):
    pass


def _is_minus_one(e):
    return isinstance(e, ast.UnaryOp) and isinstance(e.op, ast.USub) and isinstance(e.operand, ast.Constant) and e.operand.value == 1


def _tr(e, names, lists):
    if isinstance(e, ast.Name):
        if e.id in names:
            return e.id
        raise Untranslatable("name %s" % e.id)
    if isinstance(e, ast.Constant) and isinstance(e.value, int) and not isinstance(e.value, bool) and e.value >= 0:
        return str(e.value)
    if isinstance(e, ast.BinOp):
        ops = {ast.FloorDiv: "/", ast.Mod: "%", ast.Pow: "^", ast.Mult: "*", ast.Add: "+"}
        for k, s in ops.items():
            if isinstance(e.op, k):
                return "(%s %s %s)" % (_tr(e.left, names, lists), s, _tr(e.right, names, lists))
        raise Untranslatable("operator %s (subtraction is not faithful on Nat)" % type(e.op).__name__)
    if isinstance(e, ast.Call):
        f = ast.unparse(e.func)
        if f == "int" and len(e.args) == 1 and not e.keywords:
            return _tr(e.args[0], names, lists)
        if f in ("np.prod", "numpy.prod", "prod", "math.prod") and len(e.args) == 1 and not e.keywords:
            return "(%s).prod" % _trlist(e.args[0], names, lists)
        raise Untranslatable("call %s" % f)
    if isinstance(e, ast.Subscript) and isinstance(e.value, ast.Name) and e.value.id in lists and not isinstance(e.slice, ast.Slice):
        return "(%s.getD %s 0)" % (e.value.id, _tr(e.slice, names, lists))
    raise Untranslatable(ast.dump(e)[:60])


def _trlist(e, names, lists):
    if isinstance(e, ast.Name) and e.id in lists:
        return e.id
    if isinstance(e, ast.Subscript) and isinstance(e.value, ast.Name) and e.value.id in lists and isinstance(e.slice, ast.Slice):
        sl = e.slice
        if sl.upper is None and sl.step is None and sl.lower is not None:
            return "(%s.drop %s)" % (e.value.id, _tr(sl.lower, names, lists))
    raise Untranslatable("list expression %s" % ast.unparse(e))


def _return_expr(fn):
    """The returned list comprehension, after dropping what DROPS lists."""
    body = [st for st in fn.body if not (isinstance(st, ast.Expr) and isinstance(st.value, ast.Constant))]
    if body and isinstance(body[0], ast.If) and not body[0].orelse and all(
            isinstance(s, ast.Expr) and isinstance(s.value, ast.Call) and ast.unparse(s.value.func) in ("warnings.warn", "warn") for s in body[0].body):
        body = body[1:]
    if len(body) == 1 and isinstance(body[0], ast.Try) and len(body[0].body) == 1 and not body[0].orelse and not body[0].finalbody and all(
            ast.unparse(h.type) == "KeyError" and len(h.body) == 1 and isinstance(h.body[0], ast.Raise) for h in body[0].handlers):
        body = body[0].body
    if len(body) == 1 and isinstance(body[0], ast.Return) and isinstance(body[0].value, ast.ListComp):
        return body[0].value
    raise Untranslatable("function body is not `[warn-if;] return [<expr> for r in range(...)]`")


def translate(fname):
    """-> Lean source of the definition generated from the real function."""
    lean_name, params = TARGETS[fname]
    fn = extract.function(UNIFORM + fname)
    got = [a.arg for a in fn.args.args]
    if got != [p for p, _ in params]:
        raise Untranslatable("parameters %s, expected %s" % (got, [p for p, _ in params]))
    comp = _return_expr(fn)
    if len(comp.generators) != 1 or comp.generators[0].ifs or not isinstance(comp.generators[0].target, ast.Name):
        raise Untranslatable("comprehension shape")
    g = comp.generators[0]
    var = g.target.id
    names = {p for p, s in params if s == "Nat"}
    lists = {p for p, s in params if s != "Nat"}
    it = g.iter
    if not (isinstance(it, ast.Call) and isinstance(it.func, ast.Name) and it.func.id == "range" and not it.keywords):
        raise Untranslatable("iteration source %s" % ast.unparse(it))
    a = it.args
    if len(a) == 1:
        src = "(List.range %s)" % _tr(a[0], names, lists)
    elif len(a) == 3 and _is_minus_one(a[1]) and _is_minus_one(a[2]) and isinstance(a[0], ast.BinOp) and isinstance(a[0].op, ast.Sub) \
            and isinstance(a[0].right, ast.Constant) and a[0].right.value == 1:
        src = "(List.range %s).reverse" % _tr(a[0].left, names, lists)
    else:
        raise Untranslatable("range form %s" % ast.unparse(it))
    elt = _tr(comp.elt, names | {var}, lists)
    sig = " ".join("(%s : %s)" % (p, s) for p, s in params)
    return "/-- GENERATED from %s%s: `%s` -/\ndef %s %s : List Nat :=\n  (%s).map (fun %s => %s)\n" % (
        UNIFORM, fname, ast.unparse(comp).replace("\n", " "), lean_name, sig, src, var, elt)


THEOREMS = {  # obligation -> (function, theorem name)
    "length": ("_index_to_edge_prod", "decode_prod_length"),
    "digits-in-range": ("_index_to_edge_prod", "prod_digits_in_range"),
    "left-inverse": ("_index_to_edge_prod", "prod_left_inverse"),
    "injective": ("_index_to_edge_prod", "prod_injective"),
    "right-inverse": ("_index_to_edge_prod", "prod_right_inverse"),
    "part:left-inverse": ("_index_to_edge_partition", "part_left_inverse"),
    "part:digits-in-range": ("_index_to_edge_partition", "part_digits_in_range"),
    "part:injective": ("_index_to_edge_partition", "part_injective"),
}
OK_AXIOMS = {"propext", "Classical.choice", "Quot.sound"}


def run(outdir):
    """-> list of dict(name, function, theorem, status in discharged|unknown, reason, secs), lean version string."""
    os.makedirs(outdir, exist_ok=True)
    tmpl = open(os.path.join(ROOT, "pyvc", "lean", "decode_theorems.lean")).read()
    defs, errs = {}, {}
    for fname in TARGETS:
        try:
            defs[fname] = translate(fname)
        except (Untranslatable, KeyError, SyntaxError) as e:
            errs[fname] = "outside the translatable subset: %s" % e
    # one file per function so that a failure in one does not take the other along
    out = []
    for fname, (lean_name, _) in TARGETS.items():
        mine = [(ob, th) for ob, (f, th) in THEOREMS.items() if f == fname]
        if fname in errs:
            out += [dict(name=ob, function=fname, theorem=th, status="unknown", reason=errs[fname], secs=0.0) for ob, th in mine]
            continue
        m = re.search(r"-- BEGIN %s\n(.*?)-- END %s\n" % (fname, fname), tmpl, re.S)
        src = tmpl[:tmpl.index("-- BEGIN ")] + defs[fname] + "\n" + m.group(1) + "\n" + "".join("#print axioms %s\n" % th for _, th in mine)
        path = os.path.join(outdir, "%s.lean" % lean_name)
        with open(path, "w") as f:
            f.write(src)
        t = time.time()
        try:
            p = subprocess.run(["lean", path], stdout=subprocess.PIPE, stderr=subprocess.STDOUT, timeout=900, cwd=outdir)
            text, rc = p.stdout.decode(), p.returncode
        except (subprocess.TimeoutExpired, FileNotFoundError) as e:
            text, rc = "lean did not finish: %s" % e, 99
        secs = time.time() - t
        errors = [l for l in text.splitlines() if ": error" in l]
        # axioms each theorem depends on (a failed proof shows up as sorryAx)
        ax = {}
        for mm in re.finditer(r"'([\w.]+)' depends on axioms: \[([^\]]*)\]", text):
            ax[mm.group(1)] = {a.strip() for a in mm.group(2).split(",") if a.strip()}
        for mm in re.finditer(r"'([\w.]+)' does not depend on any axioms", text):
            ax[mm.group(1)] = set()
        for ob, th in mine:
            if rc != 99 and th in ax and ax[th] <= OK_AXIOMS:  # a failed proof (of it or of a lemma it uses) shows up as sorryAx
                out.append(dict(name=ob, function=fname, theorem=th, status="discharged", reason=None, secs=secs / len(mine)))
            else:
                why = errors[0] if errors else ("depends on %s" % sorted(ax.get(th, {"?"}) - OK_AXIOMS) if th in ax else text[-300:])
                out.append(dict(name=ob, function=fname, theorem=th, status="unknown", reason="lean: %s" % why, secs=secs / len(mine)))
    try:
        ver = subprocess.run(["lean", "--version"], stdout=subprocess.PIPE).stdout.decode().strip()
    except FileNotFoundError:
        ver = "lean not found"
    return out, ver, defs
