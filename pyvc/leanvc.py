"""Lean back end for pure integer kernels of /repo (C16 index decoders, C13 boundary signs, C15 sub-face count).

On every run the relevant expressions / loops of the real functions are translated, mechanically, from their ASTs
into Lean 4 definitions; pyvc/lean/*.lean hold spec functions and proofs, which Lean's kernel checks against those
freshly generated definitions.  What each translation assumes and drops is listed per job and copied into the
evidence.  A changed function yields a different definition (or falls outside the translatable shape); the proofs
then fail and the obligations are *undecided* - a failed proof is not a refutation - unless a bounded oracle
exhibits a failing input, which is then the violation.
"""
import ast
import os
import re
import subprocess
import time

from . import extract

ROOT = os.path.dirname(os.path.dirname(os.path.abspath(__file__)))
UNIFORM = "xgi/generators/uniform.py::"
OK_AXIOMS = {"propext", "Classical.choice", "Quot.sound"}


class Untranslatable(Exception):
    pass


def _is_minus_one(e):
    return isinstance(e, ast.UnaryOp) and isinstance(e.op, ast.USub) and isinstance(e.operand, ast.Constant) and e.operand.value == 1


class Tr:
    """Expression translator.  `nat`: names that are Nat variables; `lists`: names that are List Nat; `subst`: source text
    (ast.unparse) -> Lean term, tried first (used to abstract dictionary look-ups by a variable); `sub_ok`: allow `-`
    as truncated subtraction on Nat (the caller states why it cannot underflow)."""

    def __init__(self, nat=(), lists=(), subst=None, sub_ok=False):
        self.nat, self.lists, self.subst, self.sub_ok = set(nat), set(lists), dict(subst or {}), sub_ok

    def n(self, e):
        """Nat-valued term."""
        src = ast.unparse(e)
        if src in self.subst:
            return self.subst[src]
        if isinstance(e, ast.Name):
            if e.id in self.nat:
                return e.id
            raise Untranslatable("name %s" % e.id)
        if isinstance(e, ast.Constant) and isinstance(e.value, int) and not isinstance(e.value, bool) and e.value >= 0:
            return str(e.value)
        if isinstance(e, ast.BinOp):
            ops = {ast.FloorDiv: "/", ast.Mod: "%", ast.Pow: "^", ast.Mult: "*", ast.Add: "+"}
            if self.sub_ok:
                ops[ast.Sub] = "-"
            for k, s in ops.items():
                if isinstance(e.op, k):
                    return "(%s %s %s)" % (self.n(e.left), s, self.n(e.right))
            raise Untranslatable("operator %s (subtraction is not faithful on Nat)" % type(e.op).__name__)
        if isinstance(e, ast.Call):
            f = ast.unparse(e.func)
            if f == "int" and len(e.args) == 1 and not e.keywords:
                return self.n(e.args[0])
            if f in ("np.prod", "numpy.prod", "prod", "math.prod") and len(e.args) == 1 and not e.keywords:
                return "(%s).prod" % self.lst(e.args[0])
            if f in ("binom", "comb", "math.comb") and len(e.args) == 2:
                return "(Nat.choose %s %s)" % (self.n(e.args[0]), self.n(e.args[1]))
            raise Untranslatable("call %s" % f)
        if isinstance(e, ast.Subscript) and isinstance(e.value, ast.Name) and e.value.id in self.lists and not isinstance(e.slice, ast.Slice):
            return "(%s.getD %s 0)" % (e.value.id, self.n(e.slice))
        raise Untranslatable(src[:60])

    def lst(self, e):
        if isinstance(e, ast.Name) and e.id in self.lists:
            return e.id
        if isinstance(e, ast.Subscript) and isinstance(e.value, ast.Name) and e.value.id in self.lists and isinstance(e.slice, ast.Slice):
            sl = e.slice
            if sl.upper is None and sl.step is None and sl.lower is not None:
                return "(%s.drop %s)" % (e.value.id, self.n(sl.lower))
        raise Untranslatable("list expression %s" % ast.unparse(e))

    def z(self, e):
        """Int-valued term."""
        if _is_minus_one(e):
            return "(-1 : Int)"
        if isinstance(e, ast.UnaryOp) and isinstance(e.op, ast.USub):
            return "(-%s)" % self.z(e.operand)
        if isinstance(e, ast.BinOp) and isinstance(e.op, ast.Pow):
            return "(%s ^ %s)" % (self.z(e.left), self.n(e.right))
        if isinstance(e, ast.BinOp) and isinstance(e.op, (ast.Add, ast.Sub, ast.Mult)):
            s = {ast.Add: "+", ast.Sub: "-", ast.Mult: "*"}[type(e.op)]
            return "(%s %s %s)" % (self.z(e.left), s, self.z(e.right))
        if isinstance(e, ast.Call) and ast.unparse(e.func) == "int" and len(e.args) == 1:
            return self.z(e.args[0])
        return "(%s : Int)" % self.n(e)

    def rng(self, it):
        """range(...) -> List Nat term."""
        if not (isinstance(it, ast.Call) and isinstance(it.func, ast.Name) and it.func.id == "range" and not it.keywords):
            raise Untranslatable("iteration source %s" % ast.unparse(it))
        a = it.args
        if len(a) == 1:
            return "(List.range %s)" % self.n(a[0])
        if len(a) == 2:
            lo, hi = self.n(a[0]), self.n(a[1])
            return "(List.range' %s (%s - %s))" % (lo, hi, lo)
        if len(a) == 3 and _is_minus_one(a[1]) and _is_minus_one(a[2]) and isinstance(a[0], ast.BinOp) and isinstance(a[0].op, ast.Sub) \
                and isinstance(a[0].right, ast.Constant) and a[0].right.value == 1:
            return "(List.range %s).reverse" % self.n(a[0].left)
        raise Untranslatable("range form %s" % ast.unparse(it))


def _strip(fn):
    return [st for st in fn.body if not (isinstance(st, ast.Expr) and isinstance(st.value, ast.Constant))]


# ------------------------------------------------------------------------------------------------ C16: decoders
DECODERS = {
    "_index_to_edge_prod": ("decode_prod", [("index", "Nat"), ("n", "Nat"), ("m", "Nat")]),
    "_index_to_edge_partition": ("decode_part", [("index", "Nat"), ("partition_sizes", "List Nat"), ("m", "Nat")]),
}


def _decoder_def(fname):
    lean_name, params = DECODERS[fname]
    fn = extract.function(UNIFORM + fname)
    got = [a.arg for a in fn.args.args]
    if got != [p for p, _ in params]:
        raise Untranslatable("parameters %s, expected %s" % (got, [p for p, _ in params]))
    body = _strip(fn)
    if body and isinstance(body[0], ast.If) and not body[0].orelse and all(
            isinstance(s, ast.Expr) and isinstance(s.value, ast.Call) and ast.unparse(s.value.func) in ("warnings.warn", "warn") for s in body[0].body):
        body = body[1:]
    if len(body) == 1 and isinstance(body[0], ast.Try) and len(body[0].body) == 1 and not body[0].orelse and not body[0].finalbody and all(
            ast.unparse(h.type) == "KeyError" and len(h.body) == 1 and isinstance(h.body[0], ast.Raise) for h in body[0].handlers):
        body = body[0].body
    if not (len(body) == 1 and isinstance(body[0], ast.Return) and isinstance(body[0].value, ast.ListComp)):
        raise Untranslatable("function body is not `[warn-if;] return [<expr> for r in range(...)]`")
    comp = body[0].value
    if len(comp.generators) != 1 or comp.generators[0].ifs or not isinstance(comp.generators[0].target, ast.Name):
        raise Untranslatable("comprehension shape")
    g = comp.generators[0]
    var = g.target.id
    tr = Tr(nat={p for p, s in params if s == "Nat"} | {var}, lists={p for p, s in params if s != "Nat"})
    sig = " ".join("(%s : %s)" % (p, s) for p, s in params)
    return "/-- GENERATED from %s%s: `%s` -/\ndef %s %s : List Nat :=\n  (%s).map (fun %s => %s)\n" % (
        UNIFORM, fname, ast.unparse(comp).replace("\n", " "), lean_name, sig, tr.rng(g.iter), var, tr.n(comp.elt))


def _comb_defs():
    """_index_to_edge_comb: `c = []; r = <r0>; j = -1; for s in range(1, m + 1): cs = j + 1; while r - E > 0: r -= E; cs += 1;
    c.append(cs); j = cs; return c` -> a fold over s of a fuel-bounded inner loop.  `j` occurs only as `j + 1` and is represented by
    j1 = j + 1 (so -1 becomes 0)."""
    fn = extract.function(UNIFORM + "_index_to_edge_comb")
    if [a.arg for a in fn.args.args] != ["index", "n", "m"]:
        raise Untranslatable("parameters")
    body = _strip(fn)
    if body and isinstance(body[0], ast.If) and not body[0].orelse and all(
            isinstance(s_, ast.Expr) and isinstance(s_.value, ast.Call) and ast.unparse(s_.value.func) in ("warnings.warn", "warn") for s_ in body[0].body):
        body = body[1:]
    src = [ast.unparse(x) for x in body]
    inits = {ast.unparse(x.targets[0]): x for x in body[:3] if isinstance(x, ast.Assign) and len(x.targets) == 1}
    # the three initialisations are independent of one another (checked: `r`'s right-hand side mentions neither c nor j): any order
    if not (len(body) == 5 and set(inits) == {"c", "r", "j"} and ast.unparse(inits["c"].value) == "[]" and ast.unparse(inits["j"].value) == "-1"
            and not ({n.id for n in ast.walk(inits["r"].value) if isinstance(n, ast.Name)} & {"c", "j"})
            and src[4] == "return c" and isinstance(body[3], ast.For)):
        raise Untranslatable("body is not `c = []; r = ..; j = -1` (any order) `; for ..; return c`: %s" % [x.split(chr(10))[0] for x in src])
    body = [inits["c"], inits["r"], inits["j"], body[3], body[4]]
    loop = body[3]
    if not (isinstance(loop.target, ast.Name) and loop.target.id == "s" and not loop.orelse and len(loop.body) == 4):
        raise Untranslatable("outer loop shape")
    b = loop.body
    if not (ast.unparse(b[0]) == "cs = j + 1" and isinstance(b[1], ast.While) and ast.unparse(b[2]) == "c.append(cs)" and ast.unparse(b[3]) == "j = cs"):
        raise Untranslatable("outer loop body is not `cs = j + 1; while ..; c.append(cs); j = cs`")
    w = b[1]
    t = w.test
    if not (isinstance(t, ast.Compare) and len(t.ops) == 1 and isinstance(t.ops[0], ast.Gt) and ast.unparse(t.comparators[0]) == "0"
            and isinstance(t.left, ast.BinOp) and isinstance(t.left.op, ast.Sub) and ast.unparse(t.left.left) == "r" and not w.orelse and len(w.body) == 2):
        raise Untranslatable("while condition is not `r - E > 0`")
    E = t.left.right
    if not (isinstance(w.body[0], ast.AugAssign) and isinstance(w.body[0].op, ast.Sub) and ast.unparse(w.body[0].target) == "r"
            and ast.dump(w.body[0].value) == ast.dump(E) and ast.unparse(w.body[1]) == "cs += 1"):
        raise Untranslatable("while body is not `r -= E; cs += 1` with the E of the condition")
    # comb(N, K, exact=True) -> Nat.choose N K
    if not (isinstance(E, ast.Call) and ast.unparse(E.func) in ("comb", "math.comb", "special.comb") and len(E.args) == 2
            and all(k.arg == "exact" and ast.unparse(k.value) == "True" for k in E.keywords)):
        raise Untranslatable("E is not comb(N, K, exact=True)")
    tr = Tr(nat={"index", "n", "m", "s", "cs"}, sub_ok=True)
    e = "(Nat.choose %s %s)" % (tr.n(E.args[0]), tr.n(E.args[1]))
    return ("/-- GENERATED from %s_index_to_edge_comb: inner loop `while r - E > 0: r -= E; cs += 1` with E = `%s`, at most `fuel` iterations -/\n"
            "def comb_inner (n m s : Nat) : Nat → Nat → Nat → Nat × Nat\n  | 0, r, cs => (r, cs)\n"
            "  | fuel + 1, r, cs => if r > %s then comb_inner n m s fuel (r - %s) (cs + 1) else (r, cs)\n"
            "/-- GENERATED: one iteration of `for s in ...` on the state (c, r, j + 1): `cs = j + 1; <inner loop>; c.append(cs); j = cs` -/\n"
            "def comb_step (n m : Nat) (st : List Nat × Nat × Nat) (s : Nat) : List Nat × Nat × Nat :=\n"
            "  let res := comb_inner n m s n st.2.1 st.2.2\n  (st.1 ++ [res.2], res.1, res.2 + 1)\n"
            "/-- GENERATED: `c = []; %s; j = -1; for s in %s: ...; return c` -/\n"
            "def decode_comb (index n m : Nat) : List Nat :=\n  ((%s).foldl (comb_step n m) ([], %s, 0)).1\n" % (
                UNIFORM, ast.unparse(E), e, e, ast.unparse(body[1]), ast.unparse(loop.iter), Tr(nat={"index", "n", "m"}).rng(loop.iter),
                Tr(nat={"index", "n", "m"}).n(body[1].value)))


# ------------------------------------------------------------------------------------------------ C15: sub-face count
def _subface_count_def():
    fn = extract.function("xgi/algorithms/simpliciality.py::_max_number_of_subfaces")
    if [a.arg for a in fn.args.args] != ["min_size", "max_size"]:
        raise Untranslatable("parameters")
    body = _strip(fn)
    if not (len(body) == 3 and isinstance(body[0], ast.Assign) and isinstance(body[1], ast.For) and isinstance(body[2], ast.Return)):
        raise Untranslatable("body is not `d = <init>; for i in range(..): d -= <term>; return int(d)`")
    acc = body[0].targets[0]
    loop = body[1]
    if not (isinstance(acc, ast.Name) and len(loop.body) == 1 and isinstance(loop.body[0], ast.AugAssign) and isinstance(loop.body[0].op, ast.Sub)
            and isinstance(loop.body[0].target, ast.Name) and loop.body[0].target.id == acc.id and not loop.orelse and isinstance(loop.target, ast.Name)):
        raise Untranslatable("loop is not a single `acc -= term`")
    ret = body[2].value
    if isinstance(ret, ast.Call) and ast.unparse(ret.func) == "int" and len(ret.args) == 1:
        ret = ret.args[0]
    if not (isinstance(ret, ast.Name) and ret.id == acc.id):
        raise Untranslatable("return value is not the accumulator")
    tr = Tr(nat={"min_size", "max_size", loop.target.id})
    return ("/-- GENERATED from xgi/algorithms/simpliciality.py::_max_number_of_subfaces: `%s; for %s in %s: %s` -/\n"
            "def max_subfaces (min_size max_size : Nat) : Int :=\n  (%s).foldl (fun %s %s => %s - %s) %s\n" % (
                ast.unparse(body[0]), loop.target.id, ast.unparse(loop.iter), ast.unparse(loop.body[0]),
                tr.rng(loop.iter), acc.id, loop.target.id, acc.id, tr.z(loop.body[0].value), tr.z(body[0].value)))


# ------------------------------------------------------------------------------------------------ C13: boundary signs
def _boundary_defs():
    fn = extract.function("xgi/linalg/hodge_matrix.py::boundary_matrix")
    induced = entry = head = tail = None
    pos = {}
    for n in ast.walk(fn):
        if isinstance(n, ast.Assign) and len(n.targets) == 1:
            t, v = n.targets[0], n.value
            if isinstance(t, ast.Name) and t.id == "subfaces_induced_orientation" and isinstance(v, ast.ListComp):
                induced = v
            if isinstance(t, ast.Name) and t.id in ("head_idx", "tail_idx") and isinstance(v, ast.Subscript) and ast.unparse(v.value) == "u_simplex" \
                    and isinstance(v.slice, ast.Constant):
                pos[t.id] = v.slice.value
            if isinstance(t, ast.Subscript) and ast.unparse(t.value) == "B":
                row = ast.unparse(t.slice)
                if "subface_ID" in row:
                    entry = v if entry is None else "dup"
                elif "head_idx" in row:
                    head = v if head is None else "dup"
                elif "tail_idx" in row:
                    tail = v if tail is None else "dup"
    if None in (induced, entry, head, tail) or "dup" in (entry, head, tail) or set(pos) != {"head_idx", "tail_idx"}:
        raise Untranslatable("boundary_matrix: the induced-orientation list, the three matrix assignments or head/tail positions were not found exactly once")
    g = induced.generators
    if len(g) != 1 or g[0].ifs or not isinstance(g[0].target, ast.Name) or ast.unparse(g[0].iter) != "range(order + 1)":
        raise Untranslatable("induced orientation is not a comprehension over range(order + 1)")
    var = g[0].target.id
    sub = {"orientations[u_simplex_id]": "o_u", "orientations[subface_ID]": "o_f"}
    tr = Tr(nat={"order", var}, subst=sub, sub_ok=True)
    tr2 = Tr(nat={"order"}, subst=dict(sub, **{"subfaces_induced_orientation[count]": "(induced o_u order count)"}), sub_ok=True)
    return ("/-- GENERATED from xgi/linalg/hodge_matrix.py::boundary_matrix: `%s` -/\n"
            "def induced (o_u order %s : Nat) : Nat := %s\n"
            "/-- GENERATED: value stored at (face, simplex) in the general branch: `%s` -/\n"
            "def entry (o_u order count o_f : Nat) : Int := %s\n"
            "/-- GENERATED: order-1 branch, value stored for u_simplex[%d] (head) and u_simplex[%d] (tail): `%s`, `%s` -/\n"
            "def entry1_head (o_u : Nat) : Int := %s\ndef entry1_tail (o_u : Nat) : Int := %s\n"
            "def head_pos : Nat := %d\ndef tail_pos : Nat := %d\n" % (
                ast.unparse(induced).replace("\n", " "), var, tr.n(induced.elt), ast.unparse(entry).replace("\n", " "), tr2.z(entry),
                pos["head_idx"], pos["tail_idx"], ast.unparse(head).replace("\n", " "), ast.unparse(tail).replace("\n", " "),
                tr2.z(head), tr2.z(tail), pos["head_idx"], pos["tail_idx"]))


# ------------------------------------------------------------------------------------------------ jobs
NAT_ASSUME = ("arguments are non-negative Python ints (resp. sequences of them): on those, Python's // and % coincide with Lean's Nat division "
              "and remainder, ** with ^; range(k) enumerates 0..k-1, range(a, b) a..b-1, range(k - 1, -1, -1) k-1..0; int(x) is the identity on integers")
JOBS = {
    "decode_prod": dict(
        prop="C16", function=UNIFORM + "_index_to_edge_prod", template="decode_theorems.lean", section="_index_to_edge_prod",
        gen=lambda: _decoder_def("_index_to_edge_prod"),
        theorems=[("length", "decode_prod_length"), ("digits-in-range", "prod_digits_in_range"), ("left-inverse", "prod_left_inverse"),
                  ("injective", "prod_injective"), ("right-inverse", "prod_right_inverse")],
        assumes=[NAT_ASSUME], drops=["a leading `if <cond>: warnings.warn(...)` statement (its only effect is a warning; the theorems assume the index is in range)"]),
    "decode_part": dict(
        prop="C16", function=UNIFORM + "_index_to_edge_partition", template="decode_theorems.lean", section="_index_to_edge_partition",
        gen=lambda: _decoder_def("_index_to_edge_partition"),
        theorems=[("left-inverse", "part_left_inverse"), ("digits-in-range", "part_digits_in_range"), ("injective", "part_injective")],
        assumes=[NAT_ASSUME, "numpy integer arithmetic in np.prod is treated as mathematical (no overflow)"],
        drops=["the `try: ... except KeyError: raise Exception(...)` wrapper around the return (no KeyError can arise on a list / array)"]),
    "decode_comb": dict(
        prop="C16", function=UNIFORM + "_index_to_edge_comb", template="decode_theorems.lean", section="_index_to_edge_comb",
        gen=_comb_defs,
        theorems=[("inner-loop", "inner_spec"), ("length-increasing-in-range-rank", "decode_comb_spec"), ("injective", "decode_comb_injective")],
        assumes=[NAT_ASSUME, "scipy.special.comb(N, k, exact=True) is the binomial coefficient for 0 <= N (Mathlib's Nat.choose); `n - 1 - cs` and `m - s` "
                 "never underflow on the executions the theorems cover (proved: cs + (m - s) < n at every exit of the inner loop, s <= m)",
                 "the while loop is modelled with fuel n: it agrees with the Python loop whenever that exits within n iterations, which the "
                 "theorem establishes for every index < comb(n, m) (for an index out of range the Python loop may not terminate: outside the contract)",
                 "`j` occurs only as `j + 1` and is represented by that value"],
        drops=["a leading `if <cond>: warnings.warn(...)` statement"]),
    "max_subfaces": dict(
        prop="C15", function="xgi/algorithms/simpliciality.py::_max_number_of_subfaces", template="simpliciality_theorems.lean", section="_max_number_of_subfaces",
        gen=_subface_count_def,
        theorems=[("closed-form", "max_subfaces_closed"), ("counts-subsets-by-size", "max_subfaces_spec"), ("non-negative", "max_subfaces_nonneg")],
        assumes=[NAT_ASSUME, "scipy.special.binom(n, k) on small non-negative ints is the binomial coefficient (float arithmetic treated as exact)",
                 "the number of k-subsets of an n-set is Nat.choose n k (Mathlib's definition), so the theorem's right-hand side is the number of node sets T of a max_size-face with min_size <= |T| < max_size"],
        drops=[]),
    "handshake": dict(
        prop="C06", function="contracts: UInv / DInv (pyvc/spec.py)", template="handshake_theorems.lean", section="handshake",
        gen=lambda: "",
        theorems=[("degrees-sum-to-sizes", "handshake"), ("directed-degrees-sum-to-tail-and-head-sizes", "handshake_directed")],
        assumes=["a lemma over the contracts, not over code: the two-way clause of UInv / DInv, restated over Finsets (finite key sets, member sets as Finsets), implies "
                 "sum of degrees = sum of sizes; the bridge `z3 tables restricted to their keys = Finset-valued functions, card = Finset.card` is assumed",
                 "the statistics degree / size equal card of the table entries: proved separately (stat definitions, z3)"],
        drops=[]),
    "boundary_signs": dict(
        prop="C13", function="xgi/linalg/hodge_matrix.py::boundary_matrix", template="boundary_theorems.lean", section="boundary_matrix",
        gen=_boundary_defs,
        theorems=[("entries-are-units", "entry_abs"), ("order1-entries-are-units", "entry1_abs"), ("head-tail-positions", "positions"),
                  ("cancellation-general", "boundary_cancel"), ("cancellation-triangle-v0", "triangle_cancel_v0"),
                  ("cancellation-triangle-v1", "triangle_cancel_v1"), ("cancellation-triangle-v2", "triangle_cancel_v2")],
        assumes=["orientations are non-negative ints (0 / 1 in practice); `(o + order - i)` cannot underflow because i ranges over range(order + 1)",
                 "SimplicialComplex._subfaces(s, all=False) lists itertools.combinations(s, len(s) - 1) in its documented lexicographic order, so the "
                 "count-th face of the vertex-sorted simplex omits vertex number order - count",
                 "u_simplex.sort(key=...) yields one fixed total order of the vertices used consistently for a simplex and its faces",
                 "the face look-up (list(S.edges)[S.edges.members().index(frozenset(subf))]) and the numpy item assignments store exactly the translated value "
                 "at (row of that face, column of the simplex) - covered by the bounded oracle only"],
        drops=["everything of boundary_matrix except the induced-orientation comprehension and the right-hand sides of the three matrix assignments (index maps, sorting, look-ups, numpy calls)"]),
}


def run(outdir, prop):
    """Run every job of `prop`; -> (results, lean version, generated definitions).  A result is
    dict(job, name, function, theorem, status in discharged|unknown, reason, secs)."""
    os.makedirs(outdir, exist_ok=True)
    out, defs = [], {}
    for job, J in JOBS.items():
        if J["prop"] != prop:
            continue
        ths = J["theorems"]
        try:
            defs[job] = J["gen"]()
        except (Untranslatable, KeyError, SyntaxError, IndexError, AttributeError) as e:
            out += [dict(job=job, name=ob, function=J["function"], theorem=th, status="unknown", secs=0.0,
                         reason="outside the translatable subset: %s" % e) for ob, th in ths]
            continue
        tmpl = open(os.path.join(ROOT, "pyvc", "lean", J["template"])).read()
        m = re.search(r"-- BEGIN %s\n(.*?)-- END %s\n" % (re.escape(J["section"]), re.escape(J["section"])), tmpl, re.S)
        src = tmpl[:tmpl.index("-- BEGIN ")] + defs[job] + "\n" + m.group(1) + "\n" + "".join("#print axioms %s\n" % th for _, th in ths)
        path = os.path.join(outdir, "%s.lean" % job)
        with open(path, "w") as f:
            f.write(src)
        t = time.time()
        try:
            p = subprocess.run(["lean", path], stdout=subprocess.PIPE, stderr=subprocess.STDOUT, timeout=1200, cwd=outdir)
            text, rc = p.stdout.decode(), p.returncode
        except (subprocess.TimeoutExpired, FileNotFoundError) as e:
            text, rc = "lean did not finish: %s" % e, 99
        secs = time.time() - t
        errors = [l for l in text.splitlines() if ": error" in l]
        ax = {}  # axioms each theorem depends on (a failed proof - its own or of a lemma it uses - shows up as sorryAx)
        for mm in re.finditer(r"'([\w.]+)' depends on axioms: \[([^\]]*)\]", text):
            ax[mm.group(1)] = {a.strip() for a in mm.group(2).split(",") if a.strip()}
        for mm in re.finditer(r"'([\w.]+)' does not depend on any axioms", text):
            ax[mm.group(1)] = set()
        for ob, th in ths:
            if rc != 99 and th in ax and ax[th] <= OK_AXIOMS:
                out.append(dict(job=job, name=ob, function=J["function"], theorem=th, status="discharged", reason=None, secs=secs / len(ths)))
            else:
                why = errors[0] if errors else ("depends on %s" % sorted(ax.get(th, {"?"}) - OK_AXIOMS) if th in ax else text[-300:])
                out.append(dict(job=job, name=ob, function=J["function"], theorem=th, status="unknown", reason="lean: %s" % why, secs=secs / len(ths)))
    try:
        ver = subprocess.run(["lean", "--version"], stdout=subprocess.PIPE).stdout.decode().strip()
    except FileNotFoundError:
        ver = "lean not found"
    return out, ver, defs


def provider(prop, notes):
    """EXTRA-style provider (see props.py) for a property whose Lean jobs are registered above."""
    from .props import obligation

    def fn(pid, tier, seed):
        res, ver, defs = run(os.path.join(ROOT, "out", pid, "lean" if os.path.realpath(extract.REPO) == "/repo" else "lean-scratch"), prop)
        obs = []
        for r in res:
            short = r["function"].split("::")[-1]
            o = obligation("%s/lean:%s/%s" % (pid, short, r["name"]), r["status"] == "discharged", reason=r["reason"],
                           where=r["function"], secs=r["secs"], props=(pid,), clause=r["theorem"])
            o["status"] = r["status"]  # `unknown`: a failed Lean proof is undecided, never a refutation
            o["backend"] = "lean4 kernel (%s; Mathlib tactics ring/linarith/simp/omega)" % ver.split(",")[0].replace("Lean (version ", "Lean ")
            o["kind"] = "lemma"
            obs.append(o)
        jobs = [J for J in JOBS.values() if J["prop"] == prop]
        return dict(obligations=obs, violations=[], bounded=[], functions=sorted({J["function"].split("/")[-1].replace(".py::", ".") for J in jobs}),
                    trusted=["AST -> Lean translation (pyvc/leanvc.py) of %s: %s" % (J["function"], "; ".join(J["assumes"])) for J in jobs]
                    + ["Lean 4 kernel and the Mathlib lemmas the proofs cite (axioms allowed: propext, Classical.choice, Quot.sound; checked with #print axioms)"],
                    assumptions=["extraction drops for %s: %s" % (J["function"].split("::")[-1], "; ".join(J["drops"])) for J in jobs if J["drops"]] + list(notes))
    return fn
