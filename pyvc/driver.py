"""Check driver: one property -> obligations of every function in its kernel -> verdict, replay,
evidence (DESIGN 3).  Exit codes: 0 held · 1 violation · 2 undecided · 3 checker error."""
import json
import multiprocessing as mp
import os
import sys
import time
import traceback

ROOT = os.path.dirname(os.path.dirname(os.path.abspath(__file__)))
sys.path.insert(0, ROOT)

from pyvc import extract  # noqa: E402
from pyvc.spec import REGISTRY  # noqa: E402

ASSUMPTIONS = [
    "A1 value semantics + ownership: table entries never share a mutable set object (checked as ownership obligations by the executor: a store of an already-owned set is `unsupported`, not assumed)",
    "A2 ids are an uninterpreted sort quotiented by Python ==/hash; __hash__/__eq__ of user labels are pure and total; no NaN ids",
    "A3 a user-supplied iterable has a content set and a one-shot flag; a one-shot iterable yields nothing when consumed twice",
    "A4 iteration over a set/dict visits each element exactly once in unspecified order",
    "A5 exceptional exits modelled: IDNotFound/XGIError from IDDict, TypeError (unhashable / non-iterable), KeyError (set.remove, dict lookup), IndexError, StopIteration, ValueError (unpack, random.sample), UnboundLocalError, explicit raise; MemoryError/RecursionError/KeyboardInterrupt and exceptions from user __hash__/__eq__/__iter__ are out of the model",
    "A6 Python ints are mathematical integers; floats are not modelled",
    "A7 partial correctness (termination not proved except for `for` over finite collections)",
    "A8 sequential code only",
    "flag parameters (strong, remove_empty, in_place, ...) are modelled as bools (their truthiness)",
    "a local first bound inside a loop body and read before being bound in the same iteration raises UnboundLocalError (no stale loop-carried use in the kernel)",
    "language guarantee: every key of a dict is hashable",
]


# "other": the contract kernel of the property is thin (or syntactic) and most of its surface is covered by labelled bounded
# stand-ins; "proof": the kernel is the property's core and every obligation is discharged deductively
LEVELS = {"C17": "other", "C09": "other", "C10": "other", "C11": "other", "C12": "other", "C16": "other", "C13": "other", "C15": "other"}
_THIN = ("the contract kernel listed under functions_under_contract is a small part of this property's surface: its obligations are all discharged "
         "(back ends listed), and the rest of the property is explored by the bounded stand-ins listed under `bounded` (evaluations / distinct_nontrivial "
         "count those cases only; they are never added to obligations / discharged)")
EXPLAIN = {
    "C09": _THIN, "C10": _THIN, "C11": _THIN, "C12": _THIN, "C13": _THIN, "C15": _THIN, "C16": _THIN,
    "C17": "rng-frame obligations (one per seeded function, discharged syntactically and modularly by rngcheck) + native double-run stand-in; determinism itself rests on the assumed contracts of the random/numpy/networkx/scipy generators",
}


def _load():
    import faulthandler
    faulthandler.enable()
    import contracts
    contracts.load_all()


def _task(t):
    """One (function, mode, subtree) unit of work."""
    qual, variant, pid, timeout_ms, k, mode, root, budget, skip, cpu_limit = t
    try:
        _load()
        from pyvc.run import verify_one
        return verify_one(qual, mode=mode, timeout_ms=timeout_ms, variant=variant, k=k, only_props=[pid],
                          root=root, budget=budget, skip=skip, cpu_limit=cpu_limit)
    except Exception as e:  # noqa
        return dict(qual=qual, mode=mode, obligations=[], error="checker-error: %s\n%s" % (e, traceback.format_exc()),
                    secs=0.0, stats={}, variant=variant, leftover=[], root=root)


def _cpu_seconds(pid):
    """CPU time (user + system) consumed so far by process `pid`; 0 when it cannot be read."""
    try:
        with open("/proc/%d/stat" % pid) as f:
            parts = f.read().rsplit(")", 1)[1].split()
        return (int(parts[11]) + int(parts[12])) / float(os.sysconf("SC_CLK_TCK"))
    except Exception:  # noqa
        return 0.0


class Farm:
    """Fork-per-task scheduler with a hard limit per task, counted in CPU seconds of the task (a busy machine
    stretches a run, it does not turn tasks into `hangs`); 8x that in wall-clock seconds is the outer safety net.

    z3 does not honour its timeout (nor interrupt()) in every phase; a task that exceeds its
    deadline is killed and retried once, then reported as a hang (-> undecided, never a verdict).
    """

    def __init__(self, nproc=16, deadline=300):
        self.nproc = nproc
        self.deadline = deadline
        self.running = []  # (proc, conn, fn, arg, start, tries, tag)
        self.queue = []
        self.ctx = mp.get_context("fork")

    def submit(self, fn, arg, tag=None, tries=0):
        self.queue.append((fn, arg, tries, tag))

    @staticmethod
    def _child(conn, fn, arg):
        try:
            r = fn(arg)
        except BaseException as e:  # noqa
            r = {"farm_error": "%s\n%s" % (e, traceback.format_exc())}
        try:
            conn.send(r)
        except Exception as e:  # noqa
            conn.send({"farm_error": "unpicklable result: %s" % e})
        conn.close()

    def _start(self):
        while self.queue and len(self.running) < self.nproc:
            fn, arg, tries, tag = self.queue.pop(0)
            a, b = self.ctx.Pipe(duplex=False)
            p = self.ctx.Process(target=Farm._child, args=(b, fn, arg), daemon=True)
            p.start()
            b.close()
            self.running.append((p, a, fn, arg, time.time(), tries, tag))

    def results(self):
        """Yield (tag, arg, result) as tasks finish; new tasks may be submitted while iterating."""
        while self.queue or self.running:
            self._start()
            progressed = False
            for ent in list(self.running):
                p, conn, fn, arg, start, tries, tag = ent
                if conn.poll(0):
                    try:
                        r = conn.recv()
                    except EOFError:
                        r = {"farm_error": "worker died"}
                    p.join(5)
                    self.running.remove(ent)
                    progressed = True
                    yield tag, arg, r
                elif not p.is_alive():
                    self.running.remove(ent)
                    progressed = True
                    if tries < 2:  # a worker that died (z3 crash) is retried twice; verdicts only ever come from finished tasks
                        self.submit(fn, arg, tag, tries + 1)
                    else:
                        yield tag, arg, {"farm_error": "worker died (exit code %s)" % p.exitcode}
                elif _cpu_seconds(p.pid) > self.deadline or time.time() - start > self.deadline * 8:
                    p.terminate()
                    p.join(5)
                    if p.is_alive():
                        p.kill()
                    self.running.remove(ent)
                    progressed = True
                    if tries < 1:
                        self.submit(fn, arg, tag, tries + 1)
                    else:
                        yield tag, arg, {"farm_error": "task exceeded its %d s CPU / wall-clock limit twice (solver hang)" % self.deadline}
            if not progressed:
                time.sleep(0.02)


def explore(farm, tasks, pid, timeout_ms, k, mode, skipmap=None, budget=10):
    """Run every function in `mode`; a function with many paths is split into disjoint subtrees of
    its decision tree that are handed to other workers (obligations are emitted once per path)."""
    merged = {}

    def submit(q, v, root, bud):
        key = (q, json.dumps(v, sort_keys=True))
        skip = list((skipmap or {}).get(key, ()))
        farm.submit(_task, (q, v, pid, timeout_ms, k, mode, root, bud, skip, 0.55 * farm.deadline), tag=("explore", mode))

    for q, v in tasks:
        submit(q, v, None, budget)
    dbg = os.environ.get("PYVC_DEBUG")
    for tag, arg, r in farm.results():
        if tag and tag[0] == "bounded":
            merged.setdefault("__bounded__", []).append(r if "farm_error" not in r else dict(qual=arg[0], variant=arg[1], error=r["farm_error"], violations=[], cases=0, evaluated=0))
            continue
        q, v = arg[0], arg[1]
        if "farm_error" in r:
            kind = "solver-hang" if "wall-clock" in r["farm_error"] else "checker-error"
            r = dict(qual=q, variant=v, obligations=[], error="%s: %s" % (kind, r["farm_error"]), stats={}, leftover=[], secs=0.0, root=arg[6])
        key = (r["qual"], json.dumps(r["variant"], sort_keys=True))
        m = merged.setdefault(key, dict(qual=r["qual"], variant=r["variant"], obligations=[], error=None, secs=0.0, stats={}))
        m["obligations"].extend(r["obligations"])
        m["secs"] += r.get("secs", 0.0)
        if r.get("error") and not m["error"]:
            m["error"] = r["error"]
        if dbg:
            print("done %s %s root=%s left=%d err=%s" % (mode, r["qual"].split("::")[1], r.get("root"), len(r.get("leftover") or []), r.get("error")), file=sys.stderr, flush=True)
        for root in r.get("leftover") or []:
            submit(r["qual"], r["variant"], root, 12)
    return merged


def _bounded_task(t):
    qual, variant, props, limit, seed = t
    try:
        _load()
        from pyvc.bounded import run_bounded
        r = run_bounded(REGISTRY[qual], props=props, variant=variant, limit=limit, seed=seed, budget_s=25 if limit <= 100 else 600)
        r["qual"] = qual
        r["variant"] = variant
        return r
    except Exception as e:  # noqa
        return dict(qual=qual, variant=variant, error="%s\n%s" % (e, traceback.format_exc()), violations=[], cases=0, evaluated=0)


def kernel(pid):
    out = []
    for q, s in REGISTRY.items():
        if s.assumed or pid not in s.props:
            continue
        variants = s.variants or [None]
        for v in variants:
            out.append((q, v))
    return out


def load_known():
    path = os.path.join(ROOT, "known_findings.txt")
    findings, fixed = [], []
    if os.path.exists(path):
        for line in open(path):
            line = line.strip()
            if line.startswith("finding:"):
                findings.append(line[len("finding:"):].strip())
            elif line.startswith("fixed:"):
                fixed.append(line[len("fixed:"):].strip())
    return findings, fixed


def _bounded_known(bad, case, my_findings, qual):
    """A bounded-stand-in failure is a known finding when its clause and input match a listed one:
    pattern `<function>/bounded:<clause>` and the listed input text occurs in the case."""
    import fnmatch
    fname = qual.split("::")[1]
    txt = json.dumps(case.get("params", case))
    for pat, what, f in my_findings:
        for n, p in bad:
            if fnmatch.fnmatchcase("%s/bounded:%s" % (fname, n), pat):
                if not what or what.split(" :: ")[0] in txt:
                    return f
    return None


def vname(q, v):
    n = q.split("::")[1]
    if "." not in n:
        n = "%s:%s" % (q.split("::")[0].replace("xgi/", "").replace(".py", "").replace("/", "."), n)
    if v:
        n += "[" + ",".join("%s=%s" % kv for kv in sorted(v.items())) + "]"
    return n


def write_replay(pid, idx, spec, variant, obligation, case, outcome, failed, reproduced):
    d = os.path.join(ROOT, "out", pid)
    os.makedirs(d, exist_ok=True)
    path = os.path.join(d, "replay_%d.py" % idx)
    doc = dict(property=pid, function=spec.qual, variant=variant, obligation=obligation["name"], clause=obligation["clause"],
               status=obligation["status"], solver_reason=obligation.get("reason"), model=obligation.get("model"),
               case=case, observed=outcome, failed_clauses=failed, reproduced=reproduced)
    with open(path, "w") as f:
        f.write('"""Replay of a pyvc counter-example.\n\nproperty   : %s\nfunction   : %s\nobligation : %s\n'
                'reproduced : %s\n\nRun: ./check %s --replay %s   (exit 1 iff the violation reproduces on the current tree)\n"""\n'
                % (pid, spec.qual, obligation["name"], reproduced, pid, os.path.relpath(path, ROOT)))
        f.write("REPLAY = %r\n" % json.dumps(doc))
        f.write('''
if __name__ == "__main__":
    import json, os, subprocess, sys
    root = os.path.dirname(os.path.dirname(os.path.dirname(os.path.abspath(__file__))))
    sys.exit(subprocess.call(["python3-vt", os.path.join(root, "pyvc", "driver.py"), json.loads(REPLAY)["property"], "--replay", os.path.abspath(__file__)]))
''')
    return path


def do_replay(path):
    """Re-run a replay file against the current tree; exit 1 iff the violation reproduces."""
    _load()
    from pyvc.replay import run_native, evaluate
    ns = {}
    src = open(path).read()
    exec(compile(src.split("\nif __name__")[0], path, "exec"), ns)
    doc = json.loads(ns["REPLAY"])
    if "function" not in doc or doc["function"] not in REGISTRY:
        # replay of a syntactic / Lean / bounded-oracle finding: the file itself re-runs the native oracle when it has one
        if "\nif __name__" in src:
            import subprocess
            rc = subprocess.call(["python3", os.path.abspath(path)])
            print("native oracle re-run: %s" % ("violation reproduces" if rc else "no violation on the current tree"))
            return 1 if rc else 0
        print("replay file names a failed obligation without a concrete input (no-failing-input-found): %s" % doc.get("obligation"))
        print(doc.get("reason") or "")
        return 0
    spec = REGISTRY[doc["function"]]
    if not doc.get("case"):
        print("replay file carries no concrete input (no-failing-input-found): obligation %s" % doc["obligation"])
        return 0
    o = run_native([doc["case"]])[0]
    ev = evaluate(spec, doc["case"], o, [doc["property"]])
    bad = [n for n, p, v in (ev or []) if v == "false"]
    print("function %s exc=%s failed clauses: %s" % (doc["function"], o.get("exc"), bad))
    return 1 if bad else 0


def run_property(pid, tier="quick", seed=0, extra=None):
    """extra: optional callable(pid, tier, seed) -> dict(obligations=[...], bounded=[...], trusted=[...],
    assumptions=[...]) contributed by a non-SMT back end (framecheck, Lean, bounded index tables)."""
    t0 = time.time()
    _load()
    # replay files of earlier runs do not describe this run
    import glob
    for old in glob.glob(os.path.join(ROOT, "out", pid, "replay_*.py")):
        try:
            os.remove(old)
        except OSError:
            pass
    timeout_ms = 10000 if tier == "quick" else 60000
    kq = 4
    tasks = kernel(pid)
    nproc = min(16, max(1, len(tasks)))
    results = {}
    errors = []
    solver_secs = 0.0
    slow = max([getattr(REGISTRY[q], "timeout_ms", 0) or 0 for q, v in tasks] + [0])
    farm = Farm(16, deadline=max(100, 4 * slow // 1000) if tier == "quick" else 1200)
    # bounded stand-in: the same contracts evaluated on the real code over small inputs
    blimit = 60 if tier == "quick" else 400
    for q, v in tasks:
        farm.submit(_bounded_task, (q, v, [pid], blimit, seed), tag=("bounded",))
    # ground mode first (counter-models in milliseconds); an obligation refuted there is not
    # re-solved with quantifiers
    gtasks = [(q, v) for q, v in tasks if not (tier == "quick" and getattr(REGISTRY[q], "skip_ground_quick", False))]
    gres = explore(farm, gtasks, pid, timeout_ms, kq if tier == "quick" else 5, "g")
    bres = gres.pop("__bounded__", [])
    skipmap = {key: {(o["name"], o["clause"]) for o in r["obligations"] if o["status"] == "refuted"} for key, r in gres.items()}
    results = explore(farm, tasks, pid, timeout_ms, kq, "q", skipmap)
    bres += results.pop("__bounded__", [])
    # escalation: obligations left open by the unbounded attempt and not refuted at scope kq are
    # searched again for a counter-model in a larger finite universe before being called undecided
    open_tasks = []
    for key, r in results.items():
        refd = skipmap.get(key, set())
        if any(o["status"] != "discharged" and (o["name"], o["clause"]) not in refd and pid in o["props"] for o in r["obligations"]):
            open_tasks.append((r["qual"], r["variant"]))
    if open_tasks:
        g2 = explore(farm, open_tasks, pid, timeout_ms, 6, "g")
        g2.pop("__bounded__", None)
        for key, r in g2.items():
            base = gres.setdefault(key, dict(qual=r["qual"], variant=r["variant"], obligations=[], error=None))
            base["obligations"] = list(base["obligations"]) + [o for o in r["obligations"] if o["status"] == "refuted"]

    obligations, discharged, undecided, refuted = [], [], [], []
    unsupported = []
    samples = []
    for key, r in sorted(results.items()):
        q = r["qual"]
        if r["error"]:
            (errors if r["error"].startswith("checker-error") else unsupported).append((q, r["variant"], r["error"]))
        for o in r["obligations"]:
            if not (pid in o["props"] or o["kind"] == "vacuity"):
                continue
            solver_secs += o["secs"]
            o = dict(o, function=q, variant=r["variant"], backend="z3-5.1 quantified (mode q)")
            obligations.append(o)
            if o["status"] == "discharged":
                discharged.append(o)
            else:
                # is there a ground counter-model for the same obligation?
                g = gres.get(key)
                cm = None
                if g:
                    for go in g["obligations"]:
                        if go["name"] == o["name"] and go["clause"] == o["clause"] and go["status"] == "refuted":
                            cm = go
                            break
                if cm is not None:
                    o["counter_model"] = cm.get("model")
                    o["status"] = "refuted"
                    refuted.append(o)
                else:
                    undecided.append(o)
        # obligations that exist only in the ground run (paths pruned differently): refutations count too
        g = gres.get(key)
        if g:
            names = {(o["name"], o["clause"]) for o in r["obligations"]}
            for go in g["obligations"]:
                if (pid in go["props"]) and go["status"] == "refuted" and (go["name"], go["clause"]) not in names:
                    go = dict(go, function=q, variant=r["variant"], backend="z3-5.1 ground k=%d (mode g)" % kq, counter_model=go.get("model"))
                    obligations.append(go)
                    refuted.append(go)
    ext = extra(pid, tier, seed) if extra else None
    if ext:
        for o in ext.get("obligations", []):
            obligations.append(o)
            (discharged if o["status"] == "discharged" else refuted if o["status"] == "refuted" else undecided).append(o)

    # ------------------------------------------------------------------ known findings first
    import fnmatch
    findings, fixed = load_known()
    my_findings = []
    for f in findings:
        parts = f.split(None, 2)
        if parts and parts[0] == "property=%s" % pid and len(parts) >= 2:
            my_findings.append((parts[1], parts[2] if len(parts) > 2 else "", f))
    known_hits = {}
    fresh_refuted = []
    for o in refuted:
        hit = None
        for pat, what, f in my_findings:
            if fnmatch.fnmatchcase(o["name"], pat) or pat in o["name"]:
                hit = f
                break
        if hit:
            known_hits.setdefault(hit, []).append(o)
        else:
            fresh_refuted.append(o)

    # ------------------------------------------------------------------ violations: replay
    from pyvc.replay import model_to_case, run_native, evaluate
    violations = []
    ridx = 0
    for o in fresh_refuted:
        if "function" not in o or o.get("external") or o["function"] not in REGISTRY:
            continue
        spec = REGISTRY[o["function"]]
        fk = (o["function"], json.dumps(o.get("variant"), sort_keys=True))
        case, outcome, failed, reproduced = None, None, [], False
        try:
            if o.get("counter_model"):
                case = model_to_case(spec, o["counter_model"], o.get("variant"))
                outcome = run_native([case])[0]
                if "harness_error" not in outcome:
                    ev = evaluate(spec, case, outcome, [pid])
                    failed = [n for n, p, v in (ev or []) if v == "false"]
                    reproduced = bool(failed)
        except Exception as e:  # replay trouble is never a verdict
            outcome = {"replay_error": "%s" % e}
        if not reproduced:
            # second search: bounded enumeration of small inputs on the real function
            for b in bres:
                if b.get("qual") == o["function"] and json.dumps(b.get("variant"), sort_keys=True) == fk[1] and b.get("violations"):
                    for (bcase, boutcome, bad) in b["violations"]:
                        if _bounded_known(bad, bcase, my_findings, o["function"]):
                            continue
                        case, outcome = bcase, boutcome
                        failed = [n for n, p in bad]
                        reproduced = True
                        break
                    if reproduced:
                        break
        if not reproduced and o.get("abstracted"):
            # counter-model on a path that went through an abstracted (opaque) statement and no real input reproduces it:
            # undecided, not a violation (DESIGN 11.7)
            o["status"] = "unknown"
            o["reason"] = "refuted only under abstraction of an unmodelled statement; no real input reproduces it"
            undecided.append(o)
            if o in refuted:
                refuted.remove(o)
            continue
        ridx += 1
        path = write_replay(pid, ridx, spec, o.get("variant"), o, case if reproduced else None, outcome if reproduced else None, failed, reproduced)
        violations.append((o, path, reproduced, case, failed))
    if ext:
        for v in ext.get("violations", []):
            hit = None
            for pat, what, f in my_findings:
                if fnmatch.fnmatchcase(v["obligation"]["name"], pat) or pat in v["obligation"]["name"]:
                    hit = f
            if hit:
                known_hits.setdefault(hit, []).append(v["obligation"])
            else:
                violations.append((v["obligation"], v["path"], v["reproduced"], v.get("case"), v.get("failed", [])))
    # bounded stand-in violations that no obligation reported (engine miss or function out of reach)
    for b in bres:
        if b.get("error"):
            errors.append((b["qual"], b.get("variant"), "bounded: " + b["error"]))
            continue
        for (case, outcome, bad) in b.get("violations", []):
            hit = _bounded_known(bad, case, my_findings, b["qual"])
            if hit:
                known_hits.setdefault(hit, []).append(dict(name="bounded:%s" % vname(b["qual"], b.get("variant"))))
                continue
            fk = (b["qual"], json.dumps(b.get("variant"), sort_keys=True))
            if any((v[0].get("function"), json.dumps(v[0].get("variant"), sort_keys=True)) == fk and v[2] for v in violations):
                break
            spec = REGISTRY[b["qual"]]
            ridx += 1
            o = dict(name="%s/bounded:%s" % (vname(b["qual"], b.get("variant")), ",".join(n for n, p in bad)), clause=bad[0][0],
                     status="refuted", props=[pid], function=b["qual"], variant=b.get("variant"), kind="bounded", reason="bounded stand-in")
            path = write_replay(pid, ridx, spec, b.get("variant"), o, case, outcome, [n for n, p in bad], True)
            violations.append((o, path, True, case, [n for n, p in bad]))
            break

    lines = []
    real = []
    for hit in known_hits:
        lines.append("KNOWN-FINDING: property=%s %s" % (pid, hit.split(None, 1)[1]))
    # one report per function: a reproduced witness stands for the function's other refuted obligations
    byfn = {}
    for v in violations:
        k = (v[0].get("function") or v[0].get("name"), json.dumps(v[0].get("variant"), sort_keys=True))
        if k not in byfn or (v[2] and not byfn[k][2]):
            byfn[k] = v
    for (o, path, reproduced, case, failed) in byfn.values():
        real.append((o, path, reproduced))
        lines.append("VIOLATION property=%s replay=%s%s" % (pid, os.path.relpath(path, ROOT), "" if reproduced else " no-failing-input-found"))

    # ------------------------------------------------------------------ evidence
    functions = sorted({vname(q, v) for q, v in tasks} | set((ext or {}).get("functions", [])))
    n_obl = len(obligations)
    n_dis = len(discharged)
    bounded_list = [dict(function=vname(b["qual"], b.get("variant")), bound="%d of %d enumerated small inputs (networks of <=4 nodes / <=3 edges x argument pool), seed %d" % (b.get("cases", 0), b.get("space", 0), seed),
                         cases=b.get("evaluated", 0), violations=len(b.get("violations", [])), kind="bounded stand-in: same contract evaluated on the real function")
                    for b in bres if not b.get("error")]
    if ext:
        bounded_list += ext.get("bounded", [])
    level = LEVELS.get(pid, "proof")
    ev = dict(
        property_id=pid, tier=tier, seed=seed, level=level,
        coverage=dict(
            obligations=n_obl, discharged=n_dis,
            checker_cmd="python3-vt pyvc/driver.py %s --tier %s" % (pid, tier),
            trusted_base=sorted(set(_trusted() + (ext.get("trusted", []) if ext else []))),
            functions_under_contract=functions,
            backends=_backend_counts(discharged),
            solver_seconds=round(solver_secs, 2),
            undecided=[o["name"] for o in undecided][:50],
            refuted=[o["name"] for o in refuted][:50],
            unsupported=[dict(function=q, variant=v, reason=e) for q, v, e in unsupported],
            bounded=bounded_list,
            samples=[dict(name=o["name"], clause=o["clause"], status=o["status"], secs=o["secs"]) for o in obligations[:8]],
            extraction_drops="docstrings and comments only; f-string / message text evaluates to an opaque string",
            explanation=EXPLAIN.get(pid, "every obligation generated from /repo's current source for this property's kernel was discharged by the listed back ends; bounded stand-ins are reported separately and never counted"),
        ),
        assumptions=ASSUMPTIONS + (ext.get("assumptions", []) if ext else []),
        wall_s=round(time.time() - t0, 2),
        violations=len(real),
    )
    # evidence/ describes runs against /repo itself; a run against a scratch copy (PYVC_REPO, used to try seeded changes)
    # writes under out/ so that it can never be mistaken for (or committed as) evidence about the real tree
    evdir = os.path.join(ROOT, "evidence") if os.path.realpath(extract.REPO) == "/repo" else os.path.join(ROOT, "out", "evidence-scratch")
    if bounded_list:
        # exploration-style counts of the bounded stand-ins (kept apart from obligations / discharged)
        ev["coverage"]["evaluations"] = int(sum(b.get("cases", 0) or 0 for b in bounded_list))
        ev["coverage"]["distinct_nontrivial"] = int(sum((b.get("distinct") or b.get("cases") or 0) for b in bounded_list))
        ev["coverage"]["rule"] = ("bounded stand-ins only (never counted as discharged): one case = one (assertion, concrete network / parameter tuple) pair "
                                  "evaluated on the real function; distinct = different assertion kind or different concrete input; inputs are enumerated "
                                  "exhaustively up to the stated bound plus seeded random ones, every one has at least one call of the function under test")
    os.makedirs(evdir, exist_ok=True)
    with open(os.path.join(evdir, "%s.json" % pid), "w") as f:
        json.dump(ev, f, indent=1)

    for l in lines:
        print(l)
    print("property %s: %d obligations, %d discharged, %d refuted, %d undecided, %d functions, %.1fs"
          % (pid, n_obl, n_dis, len(refuted), len(undecided), len(functions), time.time() - t0))
    for q, v, e in errors:
        print("CHECKER-ERROR %s %s" % (vname(q, v), e.splitlines()[0]), file=sys.stderr)
    if real:
        return 1  # a replayed / named violation stands whatever else went wrong
    if errors:
        return 3
    if n_obl == 0:
        print("no obligations generated: refusing to report success", file=sys.stderr)
        return 3
    if undecided or unsupported:
        for o in undecided[:20]:
            print("UNDECIDED %s (%s)" % (o["name"], o.get("reason")))
        for q, v, e in unsupported:
            print("UNDECIDED %s: %s" % (vname(q, v), e))
        return 2
    return 0


def _backend_counts(discharged):
    out = {}
    for o in discharged:
        b = o.get("backend") if o.get("external") else "z3 5.1 (python API), uninterpreted Id + quantifiers"
        out[b or "other"] = out.get(b or "other", 0) + 1
    return out


def _trusted():
    from pyvc.builtins import TRUSTED
    from pyvc.views_model import TRUSTED as VIEW_TRUSTED
    return ["pyvc symbolic executor and VC generator (pyvc/symexec.py, pyvc/z.py)", "z3 5.1.0"] + list(TRUSTED) + list(VIEW_TRUSTED)


def main(argv=None):
    argv = argv or sys.argv[1:]
    pid = argv[0]
    tier = os.environ.get("VERIF_TIER", "quick")
    if "--tier" in argv:
        tier = argv[argv.index("--tier") + 1]
    seed = int(os.environ.get("VERIF_SEED", "0"))
    if "--replay" in argv:
        return do_replay(argv[argv.index("--replay") + 1])
    from pyvc import props
    extra = props.EXTRA.get(pid)
    return run_property(pid, tier, seed, extra)


if __name__ == "__main__":
    try:
        rc = main()
    except SystemExit:
        raise
    except Exception:
        traceback.print_exc()
        rc = 3
    sys.exit(rc)
