"""Bounded stand-in for C06 (runs under /venv/bin/python): on small networks with unsorted insertion
order, compare every view / statistic output with its set-theoretic definition computed from the raw
tables, across formats, filter modes and after mutations of a network whose views/stats are held.
stdout: JSON {checks, networks, violations:[{what, net, detail}]}
"""
import itertools
import json
import sys
import warnings

sys.path.insert(0, sys.argv[1] if len(sys.argv) > 1 else "/repo")
seed = int(sys.argv[2]) if len(sys.argv) > 2 else 0
import numpy as np  # noqa: E402
import xgi  # noqa: E402

V = []
N = [0]


def check(cond, what, net, detail=""):
    N[0] += 1
    if not cond:
        V.append({"what": what, "net": net, "detail": str(detail)[:300]})


def undirected():
    out = []
    H = xgi.Hypergraph()
    H.add_nodes_from([3, 1, 2, "z", 0])
    H.add_edges_from([([3, 1], "b"), ([1, 2, 3], "a"), ([3, 1], 7), ([0], 2), ([], "empty")])
    H.add_node(9, color="red")
    H.set_edge_attributes({"a": {"w": 2}, "b": {"w": 3}})
    out.append(("H-unsorted", H))
    out.append(("H-plain", xgi.Hypergraph([[5, 4], [4, 3, 2], [2, 1], [5, 4], [1]])))
    S = xgi.SimplicialComplex([[3, 1, 2], [2, 5]])
    out.append(("SC", S))
    return out


def directed():
    D = xgi.DiHypergraph()
    D.add_nodes_from([4, 1, 3])
    D.add_edges_from([(([1, 3], [4]), "x"), (([4], [4, 1]), 0), (([2], []), 5)])
    return [("DH", D)]


def stat_formats(label, view, name, defn, **kw):
    st = getattr(view, name)
    if kw:
        st = st(**kw)
    ids = list(view)
    d = st.asdict()
    check(list(d) == ids, "asdict follows view order: %s %s" % (name, kw), label, (list(d), ids))
    check(all(d[i] == defn(i) for i in ids), "stat equals its definition: %s %s" % (name, kw), label, d)
    check(st.aslist() == [d[i] for i in ids], "aslist agrees with asdict: %s" % name, label)
    check(list(st.asnumpy()) == [d[i] for i in ids], "asnumpy agrees: %s" % name, label)
    with warnings.catch_warnings():
        warnings.simplefilter("ignore")
        s = st.aspandas()
    check(list(s.index) == ids and list(s.values) == [d[i] for i in ids], "aspandas follows view order and agrees: %s" % name, label, (list(s.index), ids))
    for i in ids[:2]:
        check(st[i] == d[i], "stat[id] agrees: %s" % name, label)
    return d


def und_checks(label, H):
    Nn, E = H._node, H._edge
    nodes, edges = H.nodes, H.edges
    check(list(nodes) == list(Nn) and list(edges) == list(E), "views list the current ids in insertion order", label)
    check(len(nodes) == len(Nn) and len(edges) == len(E), "len(view)", label)
    deg = stat_formats(label, nodes, "degree", lambda n: len(Nn[n]))
    size = stat_formats(label, edges, "size", lambda e: len(E[e]))
    stat_formats(label, edges, "order", lambda e: len(E[e]) - 1)
    for o in (0, 1, 2):
        stat_formats(label, nodes, "degree", lambda n, o=o: len([e for e in Nn[n] if len(E[e]) == o + 1]), order=o)
    for dg in (1, 2):
        stat_formats(label, edges, "size", lambda e, dg=dg: len([n for n in E[e] if len(Nn[n]) == dg]), degree=dg)
    check(sum(deg.values()) == sum(size.values()), "degrees sum to sizes", label)
    # multi-stats
    m = nodes.multi(["degree", nodes.degree(order=1)])
    md = m.asdict()
    check(list(md) == list(nodes), "multi asdict view order", label)
    check(all(md[n]["degree"] == len(Nn[n]) for n in nodes), "multi asdict values", label)
    check(m.aslist() == [list(md[n].values()) for n in nodes], "multi aslist agrees", label)
    mt = m.asdict(transpose=True)
    check(mt["degree"] == {n: len(Nn[n]) for n in nodes}, "multi transpose agrees", label)
    with warnings.catch_warnings():
        warnings.simplefilter("ignore")
        df = m.aspandas()
    check(list(df.index) == list(nodes) and list(df["degree"]) == [len(Nn[n]) for n in nodes], "multi aspandas follows view order", label, list(df.index))
    # filters
    cmp = {"eq": lambda a, b: a == b, "neq": lambda a, b: a != b, "lt": lambda a, b: a < b, "gt": lambda a, b: a > b,
           "leq": lambda a, b: a <= b, "geq": lambda a, b: a >= b}
    for mode, f in cmp.items():
        for val in (0, 1, 2):
            got = list(nodes.filterby("degree", val, mode))
            check(got == [n for n in nodes if f(len(Nn[n]), val)], "filterby degree %s %s" % (mode, val), label, got)
            got = list(edges.filterby("size", val, mode))
            check(got == [e for e in edges if f(len(E[e]), val)], "filterby size %s %s" % (mode, val), label, got)
    got = list(edges.filterby("size", (1, 2), "between"))
    check(got == [e for e in edges if 1 <= len(E[e]) <= 2], "filterby between", label, got)
    got = list(edges.filterby_attr("w", 2))
    check(got == [e for e in edges if H._edge_attr[e].get("w") == 2], "filterby_attr eq", label, got)
    got = list(edges.filterby_attr("w", 2, "gt"))
    check(got == [e for e in edges if H._edge_attr[e].get("w") is not None and H._edge_attr[e].get("w") > 2], "filterby_attr gt", label, got)
    # set-theoretic functions
    for n in nodes:
        check(nodes.neighbors(n) == {m2 for e in Nn[n] for m2 in E[e]} - {n}, "node neighbors", label, n)
        check(nodes.memberships(n) == Nn[n], "memberships(n)", label)
    for e in edges:
        check(edges.neighbors(e) == {f for n in E[e] for f in Nn[n]} - {e}, "edge neighbors", label, e)
        check(set(edges.members(e)) == set(E[e]), "members(e)", label)
        for s in (2, 3):
            check(edges.neighbors(e, s=s) == {f for f in E if f != e and len(set(E[e]) & set(E[f])) >= s}, "edge s-neighbors", label, (e, s))
    check(edges.members(dtype=dict) == {e: E[e] for e in E} and list(edges.members(dtype=dict)) == list(E), "members(dict)", label)
    check(edges.members() == [E[e] for e in E], "members(list) in view order", label)
    check(nodes.memberships() == {n: Nn[n] for n in Nn}, "memberships()", label)
    check(list(nodes.isolates()) == [n for n in Nn if not Nn[n]], "isolates", label, list(nodes.isolates()))
    check(list(nodes.isolates(ignore_singletons=True)) == [n for n in Nn if not any(len(E[e]) > 1 for e in Nn[n])], "isolates ignoring singletons", label)
    check(list(edges.singletons()) == [e for e in E if len(E[e]) == 1], "singletons", label)
    check(list(edges.empty()) == [e for e in E if len(E[e]) == 0], "empty", label)
    for e in edges:
        got = set(edges.lookup(E[e]))
        check(got == {f for f in E if set(E[f]) == set(E[e])}, "lookup", label, e)
    dups = list(edges.duplicates())
    classes = {}
    for e in E:
        classes.setdefault(frozenset(E[e]), []).append(e)
    check(len(dups) == sum(len(v) - 1 for v in classes.values()) and all(any(d in v for v in classes.values() if len(v) > 1) for d in dups)
          and len(set(dups)) == len(dups), "duplicates: all but one id per class", label, dups)
    if all(len(E[e]) > 0 for e in E):
        strict = set(edges.maximal(strict=True))
        check(strict == {e for e in E if not any(f != e and set(E[e]) <= set(E[f]) for f in E)}, "maximal(strict)", label, strict)
        mx = set(edges.maximal())
        check(mx == {e for e in E if not any(set(E[e]) < set(E[f]) for f in E)}, "maximal", label, mx)


def di_checks(label, D):
    Nn, E = D._node, D._edge
    nodes, edges = D.nodes, D.edges
    check(list(nodes) == list(Nn) and list(edges) == list(E), "di views list current ids in order", label)
    stat_formats(label, nodes, "degree", lambda n: len(Nn[n]["in"] | Nn[n]["out"]))
    stat_formats(label, nodes, "in_degree", lambda n: len(Nn[n]["in"]))
    stat_formats(label, nodes, "out_degree", lambda n: len(Nn[n]["out"]))
    stat_formats(label, edges, "size", lambda e: len(E[e]["in"] | E[e]["out"]))
    stat_formats(label, edges, "order", lambda e: len(E[e]["in"] | E[e]["out"]) - 1)
    stat_formats(label, edges, "head_size", lambda e: len(E[e]["out"]))
    stat_formats(label, edges, "tail_size", lambda e: len(E[e]["in"]))
    stat_formats(label, edges, "head_order", lambda e: len(E[e]["out"]) - 1)
    stat_formats(label, edges, "tail_order", lambda e: len(E[e]["in"]) - 1)
    D.set_edge_attributes({e: 1 + i for i, e in enumerate(E)}, name="w")
    for o in (1, 2):
        filt = lambda e, o=o: len(E[e]["in"] | E[e]["out"]) == o + 1
        stat_formats(label, nodes, "degree", lambda n, filt=filt: len([e for e in Nn[n]["in"] | Nn[n]["out"] if filt(e)]), order=o)
        stat_formats(label, nodes, "in_degree", lambda n, filt=filt: len([e for e in Nn[n]["in"] if filt(e)]), order=o)
        stat_formats(label, nodes, "out_degree", lambda n, filt=filt: len([e for e in Nn[n]["out"] if filt(e)]), order=o)
        w = lambda e: D._edge_attr[e].get("w", 1)
        stat_formats(label, nodes, "degree", lambda n, filt=filt: sum(w(e) for e in Nn[n]["in"] | Nn[n]["out"] if filt(e)), order=o, weight="w")
        stat_formats(label, nodes, "in_degree", lambda n, filt=filt: sum(w(e) for e in Nn[n]["in"] if filt(e)), order=o, weight="w")
    stat_formats(label, nodes, "degree", lambda n: sum(D._edge_attr[e].get("w", 1) for e in Nn[n]["in"] | Nn[n]["out"]), weight="w")
    check(sum(len(Nn[n]["out"]) for n in Nn) == sum(len(E[e]["in"]) for e in E), "out-degrees sum to tail sizes", label)
    check(sum(len(Nn[n]["in"]) for n in Nn) == sum(len(E[e]["out"]) for e in E), "in-degrees sum to head sizes", label)
    for e in edges:
        check(edges.head(e) == E[e]["out"] and edges.tail(e) == E[e]["in"] and edges.members(e) == E[e]["in"] | E[e]["out"], "head/tail/members", label, e)
        check(edges.dimembers(e) == (E[e]["in"], E[e]["out"]), "dimembers", label)
    for n in nodes:
        check(nodes.dimemberships(n) == (Nn[n]["in"], Nn[n]["out"]) and nodes.memberships(n) == Nn[n]["in"] | Nn[n]["out"], "dimemberships", label, n)


def liveness():
    H = xgi.Hypergraph([[1, 2], [2, 3]])
    nodes, edges = H.nodes, H.edges
    deg, size = nodes.degree, edges.size
    multi = nodes.multi(["degree"])
    d2 = nodes.degree(order=1)
    _ = (deg.asdict(), size.asdict(), multi.asdict(), d2.asdict(), multi.aslist())
    H.add_edge([1, 3, 4], idx="n")
    H.remove_node(2)
    H.add_node("late")
    check(list(nodes) == list(H._node) and list(edges) == list(H._edge), "held views follow mutations", "live")
    check(deg.asdict() == {n: len(H._node[n]) for n in H._node}, "held stat follows mutations", "live", deg.asdict())
    check(d2.asdict() == {n: len([e for e in H._node[n] if len(H._edge[e]) == 2]) for n in H._node}, "held stat with args follows mutations", "live")
    check(size.aslist() == [len(H._edge[e]) for e in H._edge], "held edge stat follows mutations", "live")
    check(multi.asdict() == {n: {"degree": len(H._node[n])} for n in H._node}, "held multi-stat follows mutations", "live", multi.asdict())
    check(multi.aslist() == [[len(H._node[n])] for n in H._node], "held multi-stat aslist follows mutations", "live")
    D = xgi.DiHypergraph([([1], [2])])
    dn = D.nodes.in_degree
    _ = dn.asdict()
    D.add_edge(([3], [2, 1]))
    check(dn.asdict() == {n: len(D._node[n]["in"]) for n in D._node}, "held directed stat follows mutations", "live")


def main():
    for label, H in undirected():
        und_checks(label, H)
    for label, D in directed():
        di_checks(label, D)
    liveness()
    json.dump({"checks": N[0], "networks": 4, "violations": V}, sys.stdout)


if __name__ == "__main__":
    main()
