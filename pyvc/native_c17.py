"""Bounded stand-in / replay for C17 (runs under /venv/bin/python): same arguments + same seed,
twice, with both global generators disturbed and the function itself called with another seed in
between; results must be identical.
stdout: JSON {functions, calls, violations:[{function, args, seed}], errors:{name: msg}}
"""
import json
import random
import sys
import warnings

sys.path.insert(0, sys.argv[1] if len(sys.argv) > 1 else "/repo")
base_seed = int(sys.argv[2]) if len(sys.argv) > 2 else 0
only = set(sys.argv[3].split(",")) if len(sys.argv) > 3 and sys.argv[3] else None

import matplotlib  # noqa: E402
matplotlib.use("Agg")
import networkx as nx  # noqa: E402
import numpy as np  # noqa: E402
import xgi  # noqa: E402


def norm(r):
    if isinstance(r, (xgi.Hypergraph, xgi.DiHypergraph)):
        return ("net", [(repr(k), sorted(map(repr, v)) if not isinstance(v, dict) else repr(v)) for k, v in r._edge.items()], list(map(repr, r._node)))
    if isinstance(r, dict):
        return ("dict", [(repr(k), norm(v)) for k, v in r.items()])
    if isinstance(r, np.ndarray):
        return ("arr", r.tolist())
    if isinstance(r, (list, tuple)):
        return ("seq", [norm(x) for x in r])
    if isinstance(r, (float, np.floating)):
        return ("f", repr(float(r)))
    if isinstance(r, nx.Graph):
        return ("graph", sorted(map(repr, r.nodes)), sorted(map(repr, r.edges)))
    return ("v", repr(r))


def cases():
    H = lambda: xgi.Hypergraph([[1, 2, 3], [3, 4], [4, 5, 6, 7], [1, 7], [2, 5], [6, 8], [8, 1, 4]])
    G = lambda: nx.erdos_renyi_graph(7, 0.6, seed=3)
    k = lambda: {0: 2, 1: 2, 2: 1, 3: 1, 4: 2}
    out = {
        "fast_random_hypergraph": [lambda s: xgi.fast_random_hypergraph(8, [0.3, 0.1], seed=s)],
        "random_hypergraph": [lambda s: xgi.random_hypergraph(7, [0.3, 0.1], seed=s)],
        "chung_lu_hypergraph": [lambda s: xgi.chung_lu_hypergraph({0: 2, 1: 2, 2: 1, 3: 1}, {0: 3, 1: 2, 2: 1}, seed=s)],
        "dcsbm_hypergraph": [lambda s: xgi.dcsbm_hypergraph({0: 2, 1: 2, 2: 1, 3: 1}, {0: 3, 1: 2, 2: 1}, {0: 0, 1: 0, 2: 1, 3: 1}, {0: 0, 1: 1, 2: 1}, np.array([[4, 1], [1, 4]]), seed=s)],
        "watts_strogatz_hypergraph": [lambda s: xgi.watts_strogatz_hypergraph(8, 2, 2, 1, 0.4, seed=s)],
        "uniform_hypergraph_configuration_model": [lambda s: xgi.uniform_hypergraph_configuration_model(k(), 2, seed=s)],
        "uniform_HSBM": [lambda s: xgi.uniform_HSBM(8, 2, np.array([[0.6, 0.2], [0.2, 0.6]]), [4, 4], seed=s)],
        "uniform_HPPM": [lambda s: xgi.uniform_HPPM(8, 2, 2, 0.5, seed=s)],
        "uniform_erdos_renyi_hypergraph": [lambda s: xgi.uniform_erdos_renyi_hypergraph(8, 2, 0.3, seed=s)],
        "random_simplicial_complex": [lambda s: xgi.random_simplicial_complex(6, [0.5, 0.3], seed=s)],
        "flag_complex": [lambda s: xgi.flag_complex(G(), max_order=2, ps=[0.5], seed=s)],
        "flag_complex_d2": [lambda s: xgi.flag_complex_d2(G(), p2=0.5, seed=s)],
        "random_flag_complex": [lambda s: xgi.random_flag_complex(7, 0.6, seed=s)],
        "random_flag_complex_d2": [lambda s: xgi.random_flag_complex_d2(7, 0.6, seed=s)],
        "shuffle_hyperedges": [lambda s: xgi.shuffle_hyperedges(H(), 1, 0.7, seed=s)],
        "random_layout": [lambda s: xgi.random_layout(H(), seed=s)],
        "pairwise_spring_layout": [lambda s: xgi.pairwise_spring_layout(H(), seed=s)],
        "barycenter_spring_layout": [lambda s: xgi.barycenter_spring_layout(H(), seed=s)],
        "weighted_barycenter_spring_layout": [lambda s: xgi.weighted_barycenter_spring_layout(H(), seed=s)],
        "bipartite_spring_layout": [lambda s: xgi.bipartite_spring_layout(H(), seed=s)],
        "spectral_clustering": [lambda s: xgi.spectral_clustering(H(), k=2, seed=s),
                                lambda s: xgi.spectral_clustering(xgi.Hypergraph([[i, i + 1, (i + 3) % 12] for i in range(11)]), k=3, seed=s)],
    }
    return out


def main():
    res = {"functions": 0, "calls": 0, "violations": [], "errors": {}}
    for name, fs in sorted(cases().items()):
        if only and name not in only:
            continue
        ok = False
        for ci, f in enumerate(fs):
            for s in (base_seed, base_seed + 1, 7):
                try:
                    with warnings.catch_warnings():
                        warnings.simplefilter("ignore")
                        a = norm(f(s))
                        random.random(); random.random(); np.random.random(3); random.seed(12345 + s); np.random.seed(54321 + s)
                        f(s + 100)
                        random.random(); np.random.random()
                        b = norm(f(s))
                    ok = True
                    res["calls"] += 3
                    if a != b:
                        res["violations"].append({"function": name, "case": ci, "seed": s})
                        break
                except BaseException as e:  # noqa
                    res["errors"][name] = "%s: %s" % (type(e).__name__, str(e)[:120])
        if ok:
            res["functions"] += 1
    json.dump(res, sys.stdout)


if __name__ == "__main__":
    main()
