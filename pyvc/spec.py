"""Contract vocabulary: network snapshots, representation invariants, the contract registry.

A contract is written against immutable snapshots (Snap) of a network's abstract state
(DESIGN 2.1).  All helpers take the Ctx first so the same text is interpreted with quantifiers
(mode q), ground-expanded (mode g), or on a concrete pre/post pair (replay, mode g over the ids
that occur).
"""
import z3

from .values import VNet, VDict, VAttr, VCounter


class Snap:
    """Immutable view of a VNet at one program point."""

    @classmethod
    def from_terms(cls, kind, **kw):
        s = cls.__new__(cls)
        s.kind = kind
        for k, v in kw.items():
            setattr(s, k, v)
        return s

    def __init__(self, net):
        self.kind = net.kind
        f = net.f
        self.nk = f["_node"].keys
        self.ek = f["_edge"].keys
        self.nak = f["_node_attr"].keys
        self.eak = f["_edge_attr"].keys
        if net.kind == "DH":
            self.Nin, self.Nout = f["_node"].fields["in"], f["_node"].fields["out"]
            self.Ein, self.Eout = f["_edge"].fields["in"], f["_edge"].fields["out"]
        else:
            self.N = f["_node"].fields["v"]
            self.E = f["_edge"].fields["v"]
        self.NAh, self.NAv = f["_node_attr"].fields["has"], f["_node_attr"].fields["val"]
        self.EAh, self.EAv = f["_edge_attr"].fields["has"], f["_edge_attr"].fields["val"]
        self.neth, self.netv = f["_net_attr"].get()
        self.uid = f["_edge_uid"].next
        self.frozen = net.frozen_flag
        self.shadow = net.shadow.snapshot()
        self.warned = net.warned


def sel(a, *ks):
    """a[k1][k2]...; a select on a literal lambda is beta-reduced here (z3 leaves nested redexes to its
    array solver, where two syntactically different but beta-equal counting terms made proofs unstable)."""
    for k in ks:
        if z3.is_quantifier(a) and a.is_lambda() and a.num_vars() == 1:
            a = z3.substitute_vars(a.body(), k)
        else:
            a = z3.Select(a, k)
    return a


# ---------------------------------------------------------------------------- invariants
def memo(fn):
    """The same predicate over the same state terms yields the *same* z3 formula object, so that an
    obligation `P(S) => P(S)` is a syntactic identity for the solver instead of a quantified proof."""
    def wrapped(c, S):
        cache = c.__dict__.setdefault("_pred_cache", {})
        terms = [getattr(S, a) for a in ("nk", "ek", "nak", "eak", "N", "E", "Nin", "Nout", "Ein", "Eout", "uid") if hasattr(S, a)]
        key = (fn.__name__,) + tuple(t.get_id() for t in terms)
        hit = cache.get(key)
        if hit is not None and all(a.eq(b) for a, b in zip(hit[1], terms)):
            return hit[0]
        f = fn(c, S)
        cache[key] = (f, terms)
        return f
    wrapped.__name__ = fn.__name__
    return wrapped


@memo
def UInv(c, S):
    """C01: two-way incidence with closed keys, one attribute record each, None never an id."""
    return z3.And(
        c.forall(["id", "id"], lambda n, e: z3.And(sel(S.nk, n), sel(S.N, n, e)) == z3.And(sel(S.ek, e), sel(S.E, e, n))),
        S.nk == S.nak, S.ek == S.eak,
        z3.Not(sel(S.nk, c.NONE)), z3.Not(sel(S.ek, c.NONE)))


def UInv_parts(c, S):
    return [
        ("two-way", c.forall(["id", "id"], lambda n, e: z3.And(sel(S.nk, n), sel(S.N, n, e)) == z3.And(sel(S.ek, e), sel(S.E, e, n)))),
        ("node-attr-records", S.nk == S.nak),
        ("edge-attr-records", S.ek == S.eak),
        ("none-not-id", z3.And(z3.Not(sel(S.nk, c.NONE)), z3.Not(sel(S.ek, c.NONE)))),
    ]


@memo
def DInv(c, S):
    """C02: tail <-> out-membership, head <-> in-membership."""
    return z3.And(
        c.forall(["id", "id"], lambda n, e: z3.And(sel(S.nk, n), sel(S.Nout, n, e)) == z3.And(sel(S.ek, e), sel(S.Ein, e, n))),
        c.forall(["id", "id"], lambda n, e: z3.And(sel(S.nk, n), sel(S.Nin, n, e)) == z3.And(sel(S.ek, e), sel(S.Eout, e, n))),
        S.nk == S.nak, S.ek == S.eak,
        z3.Not(sel(S.nk, c.NONE)), z3.Not(sel(S.ek, c.NONE)))


def Inv(c, S):
    return DInv(c, S) if S.kind == "DH" else UInv(c, S)


@memo
def Fresh(c, S):
    """C04: every integer-like edge id present is below the counter."""
    return c.forall(["id"], lambda e: z3.Implies(z3.And(sel(S.ek, e), c.intlike(e)), c.int_of(e) < S.uid))


@memo
def SNonEmpty(c, S):
    return c.forall(["id"], lambda e: z3.Implies(sel(S.ek, e), sel(S.E, e) != c.EMPTY))


@memo
def SDupFree(c, S):
    return c.forall(["id", "id"], lambda e, f: z3.Implies(z3.And(sel(S.ek, e), sel(S.ek, f), sel(S.E, e) == sel(S.E, f)), e == f))


def has_simplex(c, S, T):
    return c.exists(["id"], lambda e: z3.And(sel(S.ek, e), sel(S.E, e) == T))


@memo
def SClosed(c, S):
    return c.forall(["id", "set"], lambda e, T: z3.Implies(
        z3.And(sel(S.ek, e), c.subset(T, sel(S.E, e)), c.card(T) >= 2), has_simplex(c, S, T)))


def SInv(c, S):
    return z3.And(UInv(c, S), SNonEmpty(c, S), SDupFree(c, S), SClosed(c, S))


# ---------------------------------------------------------------------------- frames
def rec_update(c, h1, v1, h2, v2):
    """(has, val-on-has predicate) of dict(h1,v1).update(dict(h2,v2)) as a relation on (has', val')."""
    def rel(h, v):
        return z3.And(c.forall(["id"], lambda k: sel(h, k) == z3.Or(sel(h1, k), sel(h2, k))),
                      c.forall(["id"], lambda k: z3.Implies(sel(h, k), sel(v, k) == z3.If(sel(h2, k), sel(v2, k), sel(v1, k)))))
    return rel


def rec_eq(c, h, v, h1, v1):
    return z3.And(h == h1, c.forall(["id"], lambda k: z3.Implies(sel(h1, k), sel(v, k) == sel(v1, k))))


def same_tables(c, A, B):
    """Structure and attribute tables equal (restricted to keys)."""
    cs = [A.nk == B.nk, A.ek == B.ek, A.nak == B.nak, A.eak == B.eak]
    if A.kind == "DH":
        cs += [c.forall(["id"], lambda n: z3.Implies(sel(A.nk, n), z3.And(sel(A.Nin, n) == sel(B.Nin, n), sel(A.Nout, n) == sel(B.Nout, n)))),
               c.forall(["id"], lambda e: z3.Implies(sel(A.ek, e), z3.And(sel(A.Ein, e) == sel(B.Ein, e), sel(A.Eout, e) == sel(B.Eout, e))))]
    else:
        cs += [c.forall(["id"], lambda n: z3.Implies(sel(A.nk, n), sel(A.N, n) == sel(B.N, n))),
               c.forall(["id"], lambda e: z3.Implies(sel(A.ek, e), sel(A.E, e) == sel(B.E, e)))]
    cs += [c.forall(["id"], lambda n: z3.Implies(sel(A.nak, n), z3.And(sel(A.NAh, n) == sel(B.NAh, n), sel(A.NAv, n) == sel(B.NAv, n)))),
           c.forall(["id"], lambda e: z3.Implies(sel(A.eak, e), z3.And(sel(A.EAh, e) == sel(B.EAh, e), sel(A.EAv, e) == sel(B.EAv, e))))]
    return z3.And(cs)


def same_state(c, A, B):
    return z3.And(same_tables(c, A, B), A.uid == B.uid, A.neth == B.neth, A.netv == B.netv)


def edges_kept(c, A, B):
    """Every edge of A is in B with the same members and attribute record (C04 'never alters')."""
    if A.kind == "DH":
        mem = lambda e: z3.And(sel(A.Ein, e) == sel(B.Ein, e), sel(A.Eout, e) == sel(B.Eout, e))
    else:
        mem = lambda e: sel(A.E, e) == sel(B.E, e)
    return c.forall(["id"], lambda e: z3.Implies(sel(A.ek, e), z3.And(
        sel(B.ek, e), mem(e),
        z3.Implies(sel(A.eak, e), z3.And(sel(B.eak, e), sel(A.EAh, e) == sel(B.EAh, e), sel(A.EAv, e) == sel(B.EAv, e))))))


# ---------------------------------------------------------------------------- registry
class LoopSpec:
    def __init__(self, header, inv, modifies=None, note="", post=None):
        self.header = header
        self.inv = inv  # lambda c, A, K: z3 Bool | groups   (K: LoopCtx)
        self.modifies = modifies
        self.note = note
        self.post = post  # per-iteration postcondition: lambda c, A, K (K.head = state at the loop head)


class Clause:
    def __init__(self, name, props, fn):
        self.name = name
        self.props = tuple(props)
        self.fn = fn


class FnSpec:
    """Contract of one function of /repo, keyed by file::qualname."""

    def __init__(self, qual, params, self_kind=None):
        self.qual = qual
        self.params = params  # list of (name, type, default)  type in PARAM_TYPES
        self.self_kind = self_kind
        self.requires = []  # Clause(fn(A))
        self.ensures = []  # normal exit: Clause(fn(A, R))
        self.ensures_all = []  # every exit, normal or exceptional
        self.raises = {}  # exc class -> list of Clause(fn(A,R)); classes not listed must not escape
        self.raises_any = False
        self.loops = []
        self.modifies = None  # names of parameters whose objects may be written; None = all nets
        self.result = None  # result kind for callers: None | 'net:H' | 'val' | 'set' | ...
        self.props = set()
        self.assumed = False  # True: contract is an assumption (external), never verified
        self.variants = None  # list of dicts param->kind override, e.g. self kind H / SC
        self.notes = ""

    # builder API -----------------------------------------------------------
    def req(self, name, fn, props=()):
        self.requires.append(Clause(name, props, fn))
        return self

    def ens(self, name, props, fn):
        self.ensures.append(Clause(name, props, fn))
        self.props |= set(props)
        return self

    def ens_all(self, name, props, fn):
        self.ensures_all.append(Clause(name, props, fn))
        self.props |= set(props)
        return self

    def exc(self, cls, name=None, props=(), fn=None):
        self.raises.setdefault(cls, [])
        if fn is not None:
            self.raises[cls].append(Clause(name, props, fn))
            self.props |= set(props)
        return self

    def loop(self, header, inv, modifies=None, note="", post=None, forget=False):
        l = LoopSpec(header, inv, modifies, note, post)
        l.forget = forget  # drop earlier loops' invariant assumptions at this loop's cut
        self.loops.append(l)
        return self


REGISTRY = {}


def contract(qual, params, **kw):
    s = FnSpec(qual, params, **kw)
    REGISTRY[qual] = s
    return s
