"""framecheck: modular, syntactic discharge of `modifies nothing on the network argument` (C08).

For every function a *summary* is computed from its own AST only: which of its parameters it may
write (directly, or by handing the parameter / a part borrowed from it to a callee whose summary
writes that position).  Callers use callee summaries, never callee bodies.  The analysis is
flow-sensitive along statement order for rebinding (`net = net.copy()` makes `net` fresh from
there on) and constant-folds tests on a boolean flag parameter (in_place=False path).

Rules (a violation of any of them is a refuted frame obligation, reported with the AST node):
  W1  store / del / augmented assignment through an expression rooted at the parameter
  W2  mutating container method (add, remove, update, clear, ...) on such an expression
  W3  call of a structural mutator / attribute setter / freeze on the parameter (or an alias)
  W4  the parameter, an alias or a part borrowed from it passed to a callee whose summary writes
      that argument position
  W5  next() on a counter borrowed from the parameter
External libraries (numpy, scipy, networkx, pandas, matplotlib, json, ...) are assumed not to
mutate Python containers handed to them (trusted, listed in the evidence).
"""
import ast
import os

from . import extract
from .frames import MUTATING_METHODS

NET_FIELDS = {"_node", "_edge", "_node_attr", "_edge_attr", "_net_attr", "_edge_uid"}
VIEW_FIELDS = {"_net", "_id_dict", "_id_attr", "_bi_id_dict", "_bi_id_attr", "_ids", "net", "view"}
# attribute names that yield something *borrowed* from the receiver (same objects, not copies)
BORROW_ATTRS = NET_FIELDS | VIEW_FIELDS | {"nodes", "edges", "_nodeview", "_edgeview"}
# methods whose result is fresh (a copy / new container), whatever the receiver
FRESH_METHODS = {"copy", "members", "memberships", "dimembers", "dimemberships", "head", "tail", "sources", "targets",
                 "asdict", "aslist", "asnumpy", "aspandas", "ashist", "ids", "union", "intersection", "difference",
                 "symmetric_difference", "dual", "cleanup", "keys", "values", "items", "get", "filterby", "filterby_attr",
                 "from_view", "isolates", "singletons", "empty", "maximal", "duplicates", "lookup", "neighbors", "multi",
                 "subhypergraph", "degree", "size", "order", "attrs", "max", "min", "sum", "mean", "tolist", "index",
                 "count", "join", "split", "format", "issubset", "issuperset", "isdisjoint", "todense", "toarray", "tocsr",
                 "tolil", "tocoo", "sort_values", "__class__"}
# .values()/.items()/.get()/[...] of a *borrowed dict of sets* are still borrowed
BORROW_THROUGH = {"values", "items", "get", "__getitem__"}
NET_MUTATORS = {
    "add_node", "add_nodes_from", "remove_node", "remove_nodes_from", "add_edge", "add_edges_from",
    "add_weighted_edges_from", "remove_edge", "remove_edges_from", "add_node_to_edge", "remove_node_from_edge",
    "clear", "clear_edges", "double_edge_swap", "random_edge_shuffle", "merge_duplicate_edges", "update",
    "set_node_attributes", "set_edge_attributes", "freeze", "add_simplex", "add_simplices_from",
    "add_weighted_simplices_from", "remove_simplex_id", "remove_simplex_ids_from", "close", "_add_simplex", "_add_face",
    "_remove_simplex_id", "__setitem__", "__setstate__", "__init__",
}
PKG_DIRS = ["utils", "core", "algorithms", "communities", "convert", "drawing", "dynamics", "generators", "linalg",
            "readwrite", "stats"]


class Fresh:
    pass


FRESH = Fresh()


class Root:
    """Abstract value: (param index, borrowed?) - the object itself or something borrowed from it."""

    def __init__(self, param, part=False, holder=False):
        self.param = param
        self.part = part
        # holder: a *fresh* container (list / dict / comprehension result) whose elements may be borrowed from
        # the parameter; changing the holder itself writes nothing, reaching into it yields borrowed parts
        self.holder = holder

    def __repr__(self):
        return "Root(%s%s%s)" % (self.param, ".part" if self.part else "", ".holder" if self.holder else "")


class Summary:
    def __init__(self, qual, params):
        self.qual = qual
        self.params = params
        self.writes = {}  # param index -> list of (lineno, reason)
        self.returns = set()  # param indices the result may borrow from
        self.escapes = []  # (lineno, what)


class Analyzer(ast.NodeVisitor):
    def __init__(self, fn, qual, summaries, fold=None, method_of=None):
        self.fn = fn
        self.qual = qual
        self.summaries = summaries  # bare name -> Summary (module-level functions)
        self.fold = fold or {}  # flag param name -> bool
        a = fn.args
        self.params = [x.arg for x in a.posonlyargs + a.args] + [x.arg for x in a.kwonlyargs]
        self.sum = Summary(qual, self.params)
        self.env = {p: Root(i) for i, p in enumerate(self.params)}
        if a.vararg:
            self.env[a.vararg.arg] = FRESH
        if a.kwarg:
            self.env[a.kwarg.arg] = FRESH

    # ---------------------------------------------------------------- expression -> Root | FRESH
    def val(self, e):
        if e is None:
            return FRESH
        if isinstance(e, ast.Name):
            return self.env.get(e.id, FRESH)
        if isinstance(e, ast.Attribute):
            b = self.val(e.value)
            if isinstance(b, Root):
                if e.attr in BORROW_ATTRS or b.part:
                    return Root(b.param, True)
                return FRESH  # e.g. H.num_nodes, H.is_frozen: computed values
            return FRESH
        if isinstance(e, ast.Subscript):
            b = self.val(e.value)
            self.scan(e.slice)
            if isinstance(b, Root):
                if b.holder and isinstance(e.slice, ast.Slice):
                    return Root(b.param, True, True)
                return Root(b.param, True)
            return FRESH
        if isinstance(e, ast.Call):
            return self.call(e)
        if isinstance(e, ast.IfExp):
            t = self.const_test(e.test)
            if t is True:
                return self.val(e.body)
            if t is False:
                return self.val(e.orelse)
            self.scan(e.test)
            a, b = self.val(e.body), self.val(e.orelse)
            return a if isinstance(a, Root) else b
        if isinstance(e, ast.BoolOp):
            rs = [self.val(v) for v in e.values]
            for r in rs:
                if isinstance(r, Root):
                    return r
            return FRESH
        if isinstance(e, (ast.ListComp, ast.SetComp, ast.GeneratorExp, ast.DictComp)):
            return self.comp(e)
        if isinstance(e, ast.Lambda):
            return FRESH
        if isinstance(e, ast.Starred):
            return self.val(e.value)
        if isinstance(e, ast.NamedExpr):
            v = self.val(e.value)
            self.env[e.target.id] = v
            return v
        if isinstance(e, (ast.Tuple, ast.List, ast.Set)):
            rs = [self.val(x) for x in e.elts]
            for r in rs:
                if isinstance(r, Root):
                    return Root(r.param, True, True)  # a fresh container holding borrowed parts
            return FRESH
        if isinstance(e, ast.Dict):
            rs = [self.val(x) for x in e.values if x is not None] + [self.val(x) for x in e.keys if x is not None]
            for r in rs:
                if isinstance(r, Root):
                    return Root(r.param, True, True)
            return FRESH
        for ch in ast.iter_child_nodes(e):
            if isinstance(ch, ast.expr):
                self.val(ch)
        return FRESH

    def scan(self, e):
        if isinstance(e, ast.expr):
            self.val(e)
        elif isinstance(e, ast.Slice):
            for x in (e.lower, e.upper, e.step):
                if x is not None:
                    self.val(x)

    def comp(self, e):
        saved = dict(self.env)
        for g in e.generators:
            it = self.val(g.iter)
            self.bind(g.target, Root(it.param, True) if isinstance(it, Root) else FRESH)  # elements: borrowed, not holders
            for c in g.ifs:
                self.val(c)
        if isinstance(e, ast.DictComp):
            self.val(e.key)
            r = self.val(e.value)
        else:
            r = self.val(e.elt)
        self.env = saved
        if isinstance(r, Root) and (r.part or r.holder):
            return Root(r.param, True, True)  # a fresh container of borrowed elements
        return FRESH

    def write(self, root, node, why):
        self.sum.writes.setdefault(root.param, []).append((getattr(node, "lineno", 0), why))

    def call(self, e):
        f = e.func
        args = [self.val(a) for a in e.args]
        kws = {k.arg: self.val(k.value) for k in e.keywords}
        if isinstance(f, ast.Attribute):
            recv = self.val(f.value)
            name = f.attr
            if isinstance(recv, Root) and recv.holder:
                if name in ("copy", "items", "values", "get", "pop", "popitem", "setdefault", "__getitem__"):
                    return Root(recv.param, True, name == "copy")
                if name in MUTATING_METHODS:
                    return FRESH  # the holder itself is fresh: no write on the parameter
                return FRESH
            if isinstance(recv, Root):
                if name in MUTATING_METHODS and recv.part:
                    self.write(recv, e, "W2 %s() on a part of parameter `%s`" % (name, self.params[recv.param]))
                    return FRESH
                if name in NET_MUTATORS and not recv.part:
                    self.write(recv, e, "W3 mutator %s() called on parameter `%s`" % (name, self.params[recv.param]))
                    return FRESH
                if name in MUTATING_METHODS and not recv.part and name in ("clear", "update"):
                    self.write(recv, e, "W3 %s() called on parameter `%s`" % (name, self.params[recv.param]))
                    return FRESH
                if name in BORROW_THROUGH and recv.part:
                    return Root(recv.param, True)
                if name in FRESH_METHODS:
                    return FRESH
                # unknown method on the parameter itself: a stat accessor (H.nodes.degree) or similar
                return FRESH
            # module function through a module alias: xgi.foo(H) / nx.foo(G)
            if isinstance(f.value, ast.Name) and f.value.id in ("xgi",):
                for callee in self.callees(name):
                    self.apply_summary(callee, args, kws, e)
            return FRESH
        if isinstance(f, ast.Name):
            name = f.id
            if name == "next" and args and isinstance(args[0], Root) and args[0].part:
                self.write(args[0], e, "W5 next() on the id counter of parameter `%s`" % self.params[args[0].param])
                return FRESH
            if name in ("iter", "reversed", "sorted", "list", "tuple", "set", "frozenset", "dict", "zip", "enumerate", "map", "filter"):
                if name in ("iter", "reversed", "zip", "enumerate", "map", "filter", "list", "tuple", "dict", "sorted"):
                    for a in args:
                        if isinstance(a, Root):
                            return Root(a.param, True, True)  # fresh container / iterator; elements (possibly borrowed sets) are shared
                return FRESH
            if name in ("deepcopy", "copy", "len", "str", "int", "float", "sum", "min", "max", "any", "all", "isinstance", "type", "hash", "id", "repr", "print", "range", "abs", "round", "getattr", "hasattr", "issubclass", "callable"):
                if name == "getattr" and args and isinstance(args[0], Root):
                    return FRESH
                return FRESH
            res = FRESH
            for callee in self.callees(name):
                r = self.apply_summary(callee, args, kws, e)
                if isinstance(r, Root):
                    res = r
            return res
        self.val(f)
        return FRESH

    def callees(self, name):
        """Summaries of every module-level function called `name` (same-named functions of different modules are
        all applied: conservative, no import resolution needed)."""
        return [s for q, s in self.summaries.items() if q.rsplit("::", 1)[-1] == name]

    def apply_summary(self, callee, args, kws, node):
        res = FRESH
        for i, a in enumerate(args):
            if isinstance(a, Root) and i in callee.writes:
                self.write(a, node, "W4 passed to %s() which writes its parameter `%s` (%s)" % (
                    callee.qual.split("::")[-1], callee.params[i] if i < len(callee.params) else i, callee.writes[i][0][1]))
            if isinstance(a, Root) and i in callee.returns:
                res = Root(a.param, True)
        for k, a in kws.items():
            if isinstance(a, Root) and k in callee.params:
                i = callee.params.index(k)
                if i in callee.writes:
                    self.write(a, node, "W4 passed as %s= to %s() which writes it" % (k, callee.qual.split("::")[-1]))
                if i in callee.returns:
                    res = Root(a.param, True)
        return res

    # ---------------------------------------------------------------- statements
    def bind(self, target, v):
        if isinstance(target, ast.Name):
            self.env[target.id] = v
        elif isinstance(target, (ast.Tuple, ast.List)):
            for t in target.elts:
                self.bind(t, Root(v.param, True) if isinstance(v, Root) else FRESH)
        elif isinstance(target, ast.Starred):
            self.bind(target.value, v)
        elif isinstance(target, ast.Subscript):
            b = self.val(target.value)
            self.scan(target.slice)
            if isinstance(b, Root) and not b.holder:
                self.write(b, target, "W1 item store into parameter `%s`" % self.params[b.param])
        elif isinstance(target, ast.Attribute):
            b = self.val(target.value)
            if isinstance(b, Root):
                if target.attr == "__doc__":
                    return
                self.write(b, target, "W1 attribute store .%s on parameter `%s`" % (target.attr, self.params[b.param]))

    def const_test(self, t):
        if isinstance(t, ast.Name) and t.id in self.fold:
            return self.fold[t.id]
        if isinstance(t, ast.UnaryOp) and isinstance(t.op, ast.Not):
            r = self.const_test(t.operand)
            return None if r is None else (not r)
        return None

    def block(self, body):
        for st in body:
            self.stmt(st)

    def stmt(self, st):
        if isinstance(st, ast.Assign):
            v = self.val(st.value)
            for t in st.targets:
                self.bind(t, v)
        elif isinstance(st, ast.AnnAssign):
            if st.value is not None:
                self.bind(st.target, self.val(st.value))
        elif isinstance(st, ast.AugAssign):
            v = self.val(st.value)
            if isinstance(st.target, ast.Name):
                cur = self.env.get(st.target.id, FRESH)
                if isinstance(cur, Root) and cur.part and not cur.holder and isinstance(st.op, (ast.BitOr, ast.BitAnd, ast.Sub, ast.BitXor, ast.Add)):
                    self.write(cur, st, "W1 augmented assignment on a part of parameter `%s`" % self.params[cur.param])
            else:
                self.bind(st.target, v)
        elif isinstance(st, ast.Delete):
            for t in st.targets:
                if isinstance(t, ast.Subscript):
                    b = self.val(t.value)
                    if isinstance(b, Root) and not b.holder:
                        self.write(b, st, "W1 del on parameter `%s`" % self.params[b.param])
        elif isinstance(st, ast.Expr):
            self.val(st.value)
        elif isinstance(st, ast.Return):
            v = self.val(st.value)
            if isinstance(v, Root):
                self.sum.returns.add(v.param)
        elif isinstance(st, ast.If):
            t = self.const_test(st.test)
            if t is True:
                self.block(st.body)
            elif t is False:
                self.block(st.orelse)
            else:
                self.val(st.test)
                saved = dict(self.env)
                self.block(st.body)
                e1 = self.env
                self.env = dict(saved)
                self.block(st.orelse)
                self.env = self.merge(e1, self.env)
        elif isinstance(st, (ast.For, ast.AsyncFor)):
            it = self.val(st.iter)
            for _ in range(2):  # twice: loop-carried aliases
                self.bind(st.target, Root(it.param, True) if isinstance(it, Root) else FRESH)
                saved = dict(self.env)
                self.block(st.body)
                self.env = self.merge(saved, self.env)
            self.block(st.orelse)
        elif isinstance(st, ast.While):
            for _ in range(2):
                self.val(st.test)
                saved = dict(self.env)
                self.block(st.body)
                self.env = self.merge(saved, self.env)
            self.block(st.orelse)
        elif isinstance(st, ast.Try):
            saved = dict(self.env)
            self.block(st.body)
            envs = [self.env]
            for h in st.handlers:
                self.env = self.merge(saved, envs[0])
                if h.name:
                    self.env[h.name] = FRESH
                self.block(h.body)
                envs.append(self.env)
            self.env = envs[0]
            for e in envs[1:]:
                self.env = self.merge(self.env, e)
            self.block(st.orelse)
            self.block(st.finalbody)
        elif isinstance(st, (ast.With, ast.AsyncWith)):
            for it in st.items:
                v = self.val(it.context_expr)
                if it.optional_vars is not None:
                    self.bind(it.optional_vars, v)
            self.block(st.body)
        elif isinstance(st, ast.Raise):
            if st.exc is not None:
                self.val(st.exc)
        elif isinstance(st, ast.Assert):
            self.val(st.test)
        elif isinstance(st, (ast.FunctionDef, ast.AsyncFunctionDef)):
            # nested function: analysed in the enclosing environment (closures see the parameters)
            saved = dict(self.env)
            for a in st.args.args:
                self.env[a.arg] = FRESH
            self.block(st.body)
            self.env = saved
            self.env[st.name] = FRESH
        elif isinstance(st, (ast.Import, ast.ImportFrom, ast.Pass, ast.Break, ast.Continue, ast.Global, ast.Nonlocal)):
            pass
        else:
            for ch in ast.iter_child_nodes(st):
                if isinstance(ch, ast.expr):
                    self.val(ch)

    @staticmethod
    def merge(a, b):
        out = dict(a)
        for k, v in b.items():
            if k not in out:
                out[k] = v
            elif isinstance(v, Root) and not isinstance(out[k], Root):
                out[k] = v
            elif isinstance(v, Root) and isinstance(out[k], Root) and v.part and not out[k].part and v.param == out[k].param:
                pass
        return out

    def run(self):
        self.block(self.fn.body)
        return self.sum


# -------------------------------------------------------------------------------- package scan
def package_modules():
    out = []
    root = os.path.join(extract.REPO, "xgi")
    for d, _, files in os.walk(root):
        for f in sorted(files):
            if f.endswith(".py"):
                out.append(os.path.relpath(os.path.join(d, f), extract.REPO))
    return sorted(out)


def all_functions():
    """"rel::name" -> (rel, FunctionDef) for module-level functions; class methods separately."""
    funcs, methods = {}, {}
    for rel in package_modules():
        try:
            m = extract.module(rel)
        except SyntaxError:
            continue
        for n in m.tree.body:
            if isinstance(n, ast.FunctionDef):
                funcs["%s::%s" % (rel, n.name)] = (rel, n)
            elif isinstance(n, ast.ClassDef):
                for b in n.body:
                    if isinstance(b, ast.FunctionDef):
                        methods["%s.%s" % (n.name, b.name)] = (rel, b, n.name)
    return funcs, methods


def public_functions():
    """"rel::name" of every module-level function exported through its own module's __all__."""
    out = []
    for rel in package_modules():
        m = extract.module(rel)
        defs = {n.name for n in m.tree.body if isinstance(n, ast.FunctionDef)}
        for n in m.tree.body:
            if isinstance(n, ast.Assign) and any(isinstance(t, ast.Name) and t.id == "__all__" for t in n.targets):
                try:
                    names = ast.literal_eval(n.value)
                except Exception:
                    continue
                out.extend("%s::%s" % (rel, x) for x in names if x in defs)
    return sorted(set(out))


def public_names():
    """Names exported through __all__ of every module under xgi/."""
    out = {}
    for rel in package_modules():
        m = extract.module(rel)
        for n in m.tree.body:
            if isinstance(n, ast.Assign) and any(isinstance(t, ast.Name) and t.id == "__all__" for t in n.targets):
                try:
                    names = ast.literal_eval(n.value)
                except Exception:
                    continue
                for x in names:
                    out.setdefault(x, rel)
    return out


def flag_params(fn):
    return [a.arg for a in fn.args.args + fn.args.kwonlyargs if a.arg in ("in_place",)]


def summarize_all(fold_in_place=False):
    """Fixpoint of summaries over all module-level functions (callee summaries only)."""
    funcs, methods = all_functions()
    sums = {}
    for name, (rel, fn) in funcs.items():
        a = fn.args
        sums[name] = Summary(name, [x.arg for x in a.posonlyargs + a.args] + [x.arg for x in a.kwonlyargs])
    for _ in range(6):
        changed = False
        for name, (rel, fn) in funcs.items():
            fold = {p: False for p in flag_params(fn)} if fold_in_place else {}
            s = Analyzer(fn, name, sums, fold).run()
            old = sums[name]
            if set(s.writes) != set(old.writes) or s.returns != old.returns:
                changed = True
            sums[name] = s
        if not changed:
            break
    msums = {}
    for q, (rel, fn, cls) in methods.items():
        msums[q] = Analyzer(fn, "%s::%s" % (rel, q), sums, {}).run()
    return sums, msums, funcs, methods
