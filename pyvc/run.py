"""Verify a list of functions (by contract key) and print / return the obligations."""
import sys
import time
import traceback

from . import extract
from .spec import REGISTRY
from .symexec import Exec, Unsupported


def verify_one(qual, mode="q", timeout_ms=10000, verbose=False, variant=None, k=4, skip=None, only_props=None,
               root=None, budget=None, cpu_limit=None):
    spec = REGISTRY[qual]
    timeout_ms = max(timeout_ms, getattr(spec, "timeout_ms", 0) or 0)
    ex = Exec(mode=mode, timeout_ms=timeout_ms, verbose=verbose, k=k)
    ex.skip = set(skip or ())
    ex.only_props = set(only_props) if only_props else None
    ex.leftover = []
    if cpu_limit:
        ex.cpu_deadline = time.process_time() + cpu_limit
        ex.cpu_hard = time.process_time() + cpu_limit / 0.55 * 0.9
    t = time.time()
    try:
        obs = ex.verify(spec, variant, root=root, budget=budget)
        err = None
    except Unsupported as e:
        obs = ex.obligations
        err = "unsupported: %s" % e
    except Exception as e:
        obs = ex.obligations
        err = "checker-error: %s\n%s" % (e, traceback.format_exc())
    return dict(qual=qual, mode=mode, obligations=[o.as_dict() for o in obs], error=err, secs=time.time() - t,
                stats=ex.stats, variant=variant, leftover=ex.leftover, root=root)


if __name__ == "__main__":
    sys.path.insert(0, "/verif")
    import contracts
    contracts.load_all()
    pats = sys.argv[1:]
    mode = "q"
    if pats and pats[0] in ("q", "g"):
        mode = pats.pop(0)
    for q in REGISTRY:
        if REGISTRY[q].assumed:
            continue
        if pats and not any(p in q for p in pats):
            continue
        r = verify_one(q, mode=mode, verbose=True)
        n = len(r["obligations"])
        d = sum(1 for o in r["obligations"] if o["status"] == "discharged")
        print("%-70s %3d/%3d  %.1fs paths=%d %s" % (q, d, n, r["secs"], r["stats"]["paths"], r["error"] or ""))
