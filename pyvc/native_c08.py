"""Bounded stand-in for C08 (runs under /venv/bin/python): call every public callable whose first
parameter is a network on small networks and compare a deep snapshot taken before and after.

stdout: JSON {functions_called, calls, skipped: {name: reason}, violations: [{function, net, args, diff}]}
"""
import copy
import inspect
import json
import sys
import warnings

sys.path.insert(0, sys.argv[1] if len(sys.argv) > 1 else "/repo")
seed = int(sys.argv[2]) if len(sys.argv) > 2 else 0
only = set(sys.argv[3].split(",")) if len(sys.argv) > 3 and sys.argv[3] else None

import matplotlib  # noqa: E402
matplotlib.use("Agg")
import numpy as np  # noqa: E402
import xgi  # noqa: E402

IN_PLACE = {  # documented in-place (DESIGN 4/C08): never expected to leave the argument alone
    "update_uid_counter", "empty_hypergraph", "empty_dihypergraph", "empty_simplicial_complex",
}


def snap(H):
    d = {"nodes": list(H._node.keys()), "edges": list(H._edge.keys()), "uid": next(copy.copy(H._edge_uid)),
         "net": repr(sorted(H._net_attr.items(), key=repr)), "frozen": sorted(k for k in H.__dict__ if not k.startswith("_"))}
    if isinstance(H, xgi.DiHypergraph):
        d["N"] = {repr(k): (sorted(map(repr, v["in"])), sorted(map(repr, v["out"]))) for k, v in H._node.items()}
        d["E"] = {repr(k): (sorted(map(repr, v["in"])), sorted(map(repr, v["out"]))) for k, v in H._edge.items()}
    else:
        d["N"] = {repr(k): sorted(map(repr, v)) for k, v in H._node.items()}
        d["E"] = {repr(k): sorted(map(repr, v)) for k, v in H._edge.items()}
    d["NA"] = [(repr(k), repr(sorted(v.items(), key=repr))) for k, v in H._node_attr.items()]
    d["EA"] = [(repr(k), repr(sorted(v.items(), key=repr))) for k, v in H._edge_attr.items()]
    return d


def nets():
    out = []
    H = xgi.Hypergraph([[1, 2, 3], [3, 4], [4, 5, 6, 7], [1, 2, 3], [8]])
    H.add_node(9, color="red")
    H.set_edge_attributes({0: {"w": [1, 2]}})
    H["name"] = "h"
    out.append(("H-mixed", H))
    H2 = xgi.Hypergraph({"a": ["x", "y"], "b": ["y", "z", "w"], 5: ["x", "w"]})
    out.append(("H-str", H2))
    H3 = xgi.Hypergraph([[0, 1], [1, 2], [0, 2], [0, 1, 2], [2, 3]])
    out.append(("H-small", H3))
    S = xgi.SimplicialComplex([[1, 2, 3], [3, 4]])
    out.append(("SC", S))
    D = xgi.DiHypergraph([([1, 2], [3]), ([3], [4, 1]), ([5], [5, 6])])
    out.append(("DH", D))
    return out


def guess(name, H, fn):
    nodes, edges = list(H.nodes), list(H.edges)
    table = {
        "order": 1, "n": nodes[0], "node": nodes[0], "idx": edges[0], "e": edges[0], "edge": edges[0], "s": 1, "seed": seed,
        "p": 0.5, "max_order": 2, "nid1": nodes[0], "nid2": nodes[1], "nodes": nodes[:3], "edges": edges[:2],
        "source": nodes[0], "k": 2, "d": 1, "m": 2, "min_size": 2, "size": 2, "name": "color", "attr": "color",
        "label_attribute": "label", "path": "/tmp/_c08_out.tmp", "stat": "degree", "val": 1, "bunch": nodes[:2],
        "node_id": nodes[0], "edge_id": edges[0], "weight": "w", "orders": [1], "weights": [1.0], "kind": "hypergraph",
        "omega": np.ones(len(nodes)), "sigma": 1.0, "timesteps": 3, "dt": 0.01, "n_steps": 3, "T": 0.1, "n_clusters": 2,
        "num_clusters": 2, "k2": 1.0, "k3": 1.0, "index": False, "pos": None, "ax": None, "subset_types": "all",
    }
    args = []
    sig = inspect.signature(fn)
    ps = list(sig.parameters.values())[1:]
    for p in ps:
        if p.default is not inspect._empty or p.kind in (p.VAR_POSITIONAL, p.VAR_KEYWORD):
            break
        if p.name in table:
            args.append(table[p.name])
        else:
            return None
    return args


def main():
    res = {"functions_called": 0, "calls": 0, "skipped": {}, "violations": [], "called": []}
    names = sorted(n for n in dir(xgi) if not n.startswith("_"))
    for name in names:
        if only and name not in only:
            continue
        fn = getattr(xgi, name)
        if not callable(fn) or inspect.isclass(fn) or inspect.ismodule(fn) or name in IN_PLACE:
            continue
        try:
            params = list(inspect.signature(fn).parameters)
        except (TypeError, ValueError):
            continue
        if not params or params[0] not in ("H", "net", "S", "SC", "DH", "data", "H1"):
            continue
        ok = 0
        for label, H in nets():
            args = guess(name, H, fn)
            if args is None:
                res["skipped"][name] = "no argument guess"
                break
            before = snap(H)
            kw = {}
            if "in_place" in params:
                kw["in_place"] = False
            try:
                with warnings.catch_warnings():
                    warnings.simplefilter("ignore")
                    r = fn(H, *args, **kw)
                    if inspect.isgenerator(r):
                        list(r)
                ok += 1
            except BaseException:  # noqa: the property is about state, not about success
                pass
            res["calls"] += 1
            after = snap(H)
            if before != after:
                diff = [k for k in before if before[k] != after[k]]
                res["violations"].append({"function": name, "net": label, "args": repr(args)[:200], "diff": diff})
        if ok:
            res["functions_called"] += 1
            res["called"].append(name)
    # methods of views and read-only methods of the classes
    for label, H in nets():
        for vname in ("nodes", "edges"):
            v = getattr(H, vname)
            for m in ("memberships", "members", "dimembers", "dimemberships", "head", "tail", "isolates", "singletons", "empty",
                      "maximal", "duplicates", "ids"):
                f = getattr(type(v), m, None)
                if f is None:
                    continue
                before = snap(H)
                try:
                    r = getattr(v, m)
                    r = r() if callable(r) else r
                    # a returned container must be a copy: mutating it must not touch the network
                    if isinstance(r, dict):
                        for x in r.values():
                            if isinstance(x, set):
                                x.add("__c08__")
                            if isinstance(x, tuple):
                                for y in x:
                                    if isinstance(y, set):
                                        y.add("__c08__")
                    elif isinstance(r, list):
                        for x in r:
                            if isinstance(x, set):
                                x.add("__c08__")
                    elif isinstance(r, set):
                        r.add("__c08__")
                except BaseException:  # noqa
                    pass
                res["calls"] += 1
                after = snap(H)
                if before != after:
                    res["violations"].append({"function": "%s.%s" % (type(v).__name__, m), "net": label, "args": "()", "diff": [k for k in before if before[k] != after[k]]})
    json.dump(res, sys.stdout)


if __name__ == "__main__":
    main()
