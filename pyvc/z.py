"""Sorts, uninterpreted vocabulary, axioms and quantifier helpers of pyvc.

Two modes share every definition (DESIGN 1.1):
  'q'  Id is an uninterpreted sort, quantifiers stay quantifiers  -> unsat = discharged, unbounded
  'g'  Id is a finite enumeration of k values, quantifiers over Id and over sets of Id are
       expanded into finite conjunctions                          -> sat = counter-model (bounded)
Every Python value that is not one of the executor's mutable objects is a term of sort Id
("Val"): ids, None, ints, strings, tuples, user-supplied iterables.  Its Python-level behaviour is
given by the uninterpreted observers declared here; the axioms relating them are instantiated per
term (never assumed globally over Int), see Ctx.val().
"""
import itertools

import z3


_ENUMS = {}
_VAL_CACHE = {}


class Ctx:
    def __init__(self, mode="q", k=4):
        self.mode = mode
        self.k = k
        I = z3.IntSort()
        B = z3.BoolSort()
        if mode == "q":
            self.Id = z3.DeclareSort("Id")
            self.ids = None
        else:
            if k not in _ENUMS:
                _ENUMS[k] = z3.EnumSort("Id%d" % k, ["i%d" % j for j in range(k)])
            self.Id, ids = _ENUMS[k]
            self.ids = list(ids)
        Id = self.Id
        self.SetId = z3.ArraySort(Id, B)
        self.MapSet = z3.ArraySort(Id, self.SetId)
        self.MapVal = z3.ArraySort(Id, Id)
        self.MapMapVal = z3.ArraySort(Id, self.MapVal)
        self.SeqId = z3.ArraySort(I, Id)
        self.EMPTY = z3.K(Id, z3.BoolVal(False))
        self.NONE = z3.Const("NONE", Id)
        F = z3.Function
        self.intlike = F("intlike", Id, B)
        self.int_of = F("int_of", Id, I)
        self.id_of_int = F("id_of_int", I, Id)
        self.is_int = F("is_int", Id, B)  # isinstance(x, int) (or a numpy integer): implies intlike, not implied by it (0.0)
        self.is_str = F("is_str", Id, B)
        self.is_tuple = F("is_tuple", Id, B)
        self.is_list = F("is_list", Id, B)
        self.is_dict = F("is_dict", Id, B)
        self.truthy = F("truthy", Id, B)
        self.hashable = F("hashable", Id, B)
        self.floatable = F("floatable", Id, B)
        self.iterable = F("iterable", Id, B)
        self.elems_hashable = F("elems_hashable", Id, B)
        self.one_shot = F("one_shot", Id, B)
        self.content = F("content", Id, self.SetId)
        self.sub = F("sub", Id, I, Id)
        self.len_of = F("len_of", Id, I)
        self.akeys = F("akeys", Id, self.SetId)  # keys of a Val that is a dict
        self.avals = F("avals", Id, self.MapVal)  # its values
        self.deepcopy = F("deepcopy", Id, Id)
        self._card = F("card", self.SetId, I)
        self._in_quant = 0
        self._n = 0
        self.axioms = []  # globally valid facts (instances), added to every query
        self._seen_val = set()
        self._seen_card = set()
        self._keep = []  # keeps registered terms alive so z3 AST ids are not recycled
        self._ops = {}
        self._in_quant = 0
        self._n = 0
        self.strs = {}
        if mode == "q":
            self.axioms.append(self._card(self.EMPTY) == 0)
            # card of a one-point update (quantified copy; instances for ground terms come from card())
            S_ = z3.Const("cs", self.SetId)
            x_ = z3.Const("cx", Id)
            t1 = self._card(z3.Store(S_, x_, z3.BoolVal(True)))
            t0 = self._card(z3.Store(S_, x_, z3.BoolVal(False)))
            self.axioms.append(z3.ForAll([S_, x_], t1 == self._card(S_) + z3.If(z3.Select(S_, x_), 0, 1), patterns=[t1]))
            self.axioms.append(z3.ForAll([S_, x_], t0 == self._card(S_) - z3.If(z3.Select(S_, x_), 1, 0), patterns=[t0]))
            self.axioms.append(z3.ForAll([S_], self._card(S_) >= 0, patterns=[self._card(S_)]))
        # the type lattice of Vals, also for quantified ids (the per-term instances in val() cover
        # the ground terms for the quantifier-free pruning tier)
        self.axioms.append(self.forall(["id"], lambda x: z3.And(
            z3.Implies(self.is_int(x), self.intlike(x)),
            z3.Implies(self.intlike(x), z3.And(self.hashable(x), z3.Not(self.is_str(x)), z3.Not(self.iterable(x)), x != self.NONE,
                                               z3.Not(self.is_tuple(x)), z3.Not(self.is_list(x)), z3.Not(self.is_dict(x)))),
            z3.Implies(self.is_str(x), z3.And(self.hashable(x), x != self.NONE)))))
        self.axioms += [
            z3.Not(self.intlike(self.NONE)),
            z3.Not(self.is_int(self.NONE)),
            z3.Not(self.is_str(self.NONE)),
            z3.Not(self.is_tuple(self.NONE)),
            z3.Not(self.is_list(self.NONE)),
            z3.Not(self.is_dict(self.NONE)),
            z3.Not(self.truthy(self.NONE)),
            self.hashable(self.NONE),
            z3.Not(self.floatable(self.NONE)),
            z3.Not(self.iterable(self.NONE)),
        ]

    # ------------------------------------------------------------------ names
    def fresh(self, base, sort):
        self._n += 1
        return z3.Const("%s!%d" % (base, self._n), sort)

    def fresh_id(self, base="v"):
        return self.val(self.fresh(base, self.Id))

    # ------------------------------------------------------------------ Val axioms (per term)
    def val(self, t):
        """Register the per-term instances of the Val axioms for term t and return t."""
        if self._in_quant:
            return t
        key = t.get_id()
        if key in self._seen_val:
            return t
        self._seen_val.add(key)
        self._keep.append(t)
        # re-executed paths rebuild structurally identical terms (same AST id while the cached
        # copy is alive): reuse the instantiated axioms instead of rebuilding them through the API
        cached = _VAL_CACHE.get((self.mode, self.k, key))
        if cached is not None and cached[0].eq(t):
            self.axioms.extend(cached[1])
            return t
        n0 = len(self.axioms)
        self._val_axioms(t)
        _VAL_CACHE[(self.mode, self.k, key)] = (t, self.axioms[n0:])
        return t

    def _val_axioms(self, t):
        A = self.axioms
        il = self.intlike(t)
        A.append(z3.Implies(il, z3.And(self.floatable(t), z3.Not(self.is_str(t)), z3.Not(self.is_tuple(t)),
                                       z3.Not(self.is_list(t)), z3.Not(self.is_dict(t)),
                                       self.hashable(t), z3.Not(self.iterable(t)), t != self.NONE,
                                       self.truthy(t) == (self.int_of(t) != 0),
                                       self.id_of_int(self.int_of(t)) == t)))
        A.append(z3.Implies(self.is_int(t), il))
        A.append(z3.Implies(self.is_str(t), z3.And(self.hashable(t), self.iterable(t), z3.Not(self.one_shot(t)),
                                                   z3.Not(self.is_tuple(t)), z3.Not(self.is_list(t)),
                                                   z3.Not(self.is_dict(t)), self.elems_hashable(t))))
        A.append(z3.Implies(self.is_tuple(t), z3.And(self.iterable(t), z3.Not(self.one_shot(t)),
                                                     z3.Not(self.is_list(t)), z3.Not(self.is_dict(t)),
                                                     z3.Not(self.floatable(t)))))
        A.append(z3.Implies(self.is_list(t), z3.And(self.iterable(t), z3.Not(self.one_shot(t)),
                                                    z3.Not(self.hashable(t)), z3.Not(self.is_dict(t)),
                                                    z3.Not(self.floatable(t)))))
        A.append(z3.Implies(self.is_dict(t), z3.And(self.iterable(t), z3.Not(self.one_shot(t)),
                                                    z3.Not(self.hashable(t)), z3.Not(self.floatable(t)),
                                                    self.content(t) == self.akeys(t), self.elems_hashable(t))))
        # sized containers are falsy exactly when empty; iterators / generators are always truthy
        A.append(z3.Implies(z3.And(self.iterable(t), z3.Not(self.one_shot(t))),
                            self.truthy(t) == (self.content(t) != self.EMPTY)))
        A.append(z3.Implies(self.one_shot(t), z3.And(self.iterable(t), self.truthy(t), z3.Not(self.is_str(t)))))
        A.append(z3.Implies(t == self.NONE, z3.Not(self.truthy(t))))
        A.append(self.len_of(t) >= 0)
        return t

    def len_axiom(self, t):
        """a sized container has at least as many items as distinct elements (instantiated where len() is taken)"""
        key = ("len", t.get_id())
        if key not in self._seen_val and not self._in_quant:
            self._seen_val.add(key)
            self._keep.append(t)
            cc = self.card(self.content(t)) if self.mode == "g" else self._card(self.content(t))
            self.axioms.append(z3.Implies(z3.And(self.iterable(t), z3.Not(self.one_shot(t))), z3.And(cc <= self.len_of(t), cc >= 0)))

    def of_int(self, i):
        """Val for the Python int denoted by Int term i."""
        t = self.id_of_int(i)
        key = ("oi", t.get_id())
        if key not in self._seen_val and not self._in_quant:
            self._seen_val.add(key)
            self._keep.append(t)
            self.axioms += [self.intlike(t), self.int_of(t) == i, self.is_int(t)]
            self.val(t)
        return t

    def strlit(self, s):
        if s not in self.strs:
            c = z3.Const("str_%s" % (s if s.isidentifier() else "x%d" % len(self.strs)), self.Id)
            for o in self.strs.values():
                self.axioms.append(c != o)
            self.strs[s] = c
            self.axioms += [self.is_str(c), c != self.NONE, z3.Not(self.intlike(c)),
                            self.truthy(c) == z3.BoolVal(bool(s)), z3.Not(self.floatable(c)),
                            self.len_of(c) == len(s)]
            self.val(c)
        return self.strs[s]

    # ------------------------------------------------------------------ sets
    def add(self, s, x):
        return z3.Store(s, x, z3.BoolVal(True))

    def rem(self, s, x):
        return z3.Store(s, x, z3.BoolVal(False))

    def setof(self, f):
        """{x | f(x)} : a lambda in mode q, an explicit finite table in mode g."""
        if self.mode == "g":
            r = self.EMPTY
            for i in self.ids:
                r = z3.Store(r, i, f(i))
            return r
        x = self.fresh("u", self.Id)
        return z3.Lambda([x], f(x))

    def mapof(self, f, like):
        """Array x -> f(x) of the sort of `like`."""
        if self.mode == "g":
            r = like
            for i in self.ids:
                r = z3.Store(r, i, f(i))
            return r
        x = self.fresh("u", self.Id)
        return z3.Lambda([x], f(x))

    def union(self, a, b):
        return self.setof(lambda x: z3.Or(z3.Select(a, x), z3.Select(b, x)))

    def inter(self, a, b):
        return self.setof(lambda x: z3.And(z3.Select(a, x), z3.Select(b, x)))

    def diff(self, a, b):
        return self.setof(lambda x: z3.And(z3.Select(a, x), z3.Not(z3.Select(b, x))))

    def single(self, x):
        return z3.Store(self.EMPTY, x, z3.BoolVal(True))

    def subset(self, a, b):
        return self.forall(["id"], lambda x: z3.Implies(z3.Select(a, x), z3.Select(b, x)))

    def seteq(self, a, b):
        # extensional equality; z3 arrays are extensional, so == is enough, but the explicit
        # pointwise form is friendlier to E-matching when one side is a lambda
        return a == b

    def card(self, s):
        if self.mode == "g":
            return z3.Sum([z3.If(z3.Select(s, i), 1, 0) for i in self.ids])
        if self._in_quant:
            return self._card(s)
        key = ("c", s.get_id())
        if key not in self._seen_card:
            self._seen_card.add(key)
            self._keep.append(s)
            self.axioms.append(self._card(s) >= 0)
            self.axioms.append((self._card(s) == 0) == (s == self.EMPTY))
            if z3.is_store(s):
                # card of a one-point update, relative to its base (instantiated lazily, recursively)
                b, x, v = s.arg(0), s.arg(1), s.arg(2)
                self.axioms.append(self._card(s) == self.card(b) + z3.If(v, 1, 0) - z3.If(z3.Select(b, x), 1, 0))
        return self._card(s)

    def set_op(self, kind, a, b):
        """Executor-level set operation: the term is built once and its cardinality is related to its
        operands (inclusion-exclusion), so len() of the result can be reasoned about."""
        key = (kind, a.get_id(), b.get_id())
        if key in self._ops:
            return self._ops[key][0]
        r = {"union": self.union, "inter": self.inter, "diff": self.diff}[kind](a, b)
        self._ops[key] = (r, a, b)
        if self.mode == "q" and not self._in_quant:
            i = r if kind == "inter" else self.set_op("inter", a, b)
            c = self._card
            if kind == "union":
                self.axioms.append(c(r) + c(i) == c(a) + c(b))
            elif kind == "diff":
                self.axioms.append(c(r) + c(i) == c(a))
            else:
                self.axioms += [c(r) <= c(a), c(r) <= c(b), c(r) >= 0, (c(r) == 0) == (r == self.EMPTY)]
            self.axioms += [c(r) >= 0, (c(r) == 0) == (r == self.EMPTY)]
        return r

    def card_union_axiom(self, a, b):
        """card(a|b) + card(a&b) == card(a) + card(b), instantiated on demand (mode q)."""
        if self.mode == "g":
            return
        u, i = self.union(a, b), self.inter(a, b)
        self.axioms.append(self.card(u) + self.card(i) == self.card(a) + self.card(b))
        return u, i

    # ------------------------------------------------------------------ quantifiers
    def all_sets(self):
        out = []
        for bits in itertools.product([False, True], repeat=self.k):
            s = self.EMPTY
            for i, b in zip(self.ids, bits):
                if b:
                    s = z3.Store(s, i, z3.BoolVal(True))
            out.append(s)
        return out

    def _domain(self, kind):
        if kind == "id":
            return self.ids
        if kind == "set":
            if getattr(self, "set_domain", None) is not None:
                return self.set_domain
            return self.all_sets()
        raise ValueError(kind)

    def forall(self, kinds, f, pats=None):
        if self.mode == "g":
            doms = [self._domain(k) for k in kinds]
            return z3.And([f(*c) for c in itertools.product(*doms)])
        vs = [self.fresh("q", self.Id if k == "id" else self.SetId if k == "set" else z3.IntSort()) for k in kinds]
        self._in_quant += 1
        try:
            body = f(*vs)
        finally:
            self._in_quant -= 1
        if pats:
            return z3.ForAll(vs, body, patterns=[p(*vs) for p in pats])
        return z3.ForAll(vs, body)

    def exists(self, kinds, f):
        if self.mode == "g":
            doms = [self._domain(k) for k in kinds]
            return z3.Or([f(*c) for c in itertools.product(*doms)])
        vs = [self.fresh("q", self.Id if k == "id" else self.SetId) for k in kinds]
        self._in_quant += 1
        try:
            body = f(*vs)
        finally:
            self._in_quant -= 1
        return z3.Exists(vs, body)

    def forall_int(self, f):
        """Quantification over Int is never expanded; used sparingly (sequence contents)."""
        v = self.fresh("j", z3.IntSort())
        return z3.ForAll([v], f(v))
