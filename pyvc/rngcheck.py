"""rng-frame obligations for C17 (DESIGN 4/C17): every read of a global random generator inside a
seeded function is dominated by a seeding of that generator with the function's own `seed`, and
every callee that draws random numbers receives the seed explicitly.  Syntactic and modular:
callees are represented by (has seed parameter?, sources read) summaries only.
"""
import ast

from . import extract
from .framecheck import all_functions, public_names

PY_READS = {"random", "sample", "choice", "choices", "shuffle", "randint", "randrange", "uniform", "gauss", "normalvariate",
            "betavariate", "expovariate", "triangular", "getrandbits", "paretovariate", "vonmisesvariate", "weibullvariate"}
NP_NOT_READS = {"seed", "default_rng", "RandomState", "Generator", "SeedSequence", "get_state", "set_state"}
# external callables that draw random numbers and take the seed as a keyword
EXT_TAKES_SEED = {"spring_layout", "fast_gnp_random_graph", "gnp_random_graph", "erdos_renyi_graph", "random_layout",
                  "kamada_kawai_layout_seeded", "default_rng", "RandomState"}
# external callables with a hidden read of a global generator unless a keyword fixes it
EXT_HIDDEN = {"eigsh": ("v0", "np-global (ARPACK start vector)"), "eigs": ("v0", "np-global (ARPACK start vector)"),
              "lobpcg": (None, "caller supplies X"), "svds": ("v0", "np-global (ARPACK start vector)")}


def _chain(e):
    parts = []
    while isinstance(e, ast.Attribute):
        parts.append(e.attr)
        e = e.value
    if isinstance(e, ast.Name):
        parts.append(e.id)
        return list(reversed(parts))
    return None


def mentions(e, name):
    return any(isinstance(n, ast.Name) and n.id == name for n in ast.walk(e))


class FnInfo:
    def __init__(self, name, rel, fn):
        self.name, self.rel, self.fn = name, rel, fn
        a = fn.args
        self.params = [x.arg for x in a.posonlyargs + a.args + a.kwonlyargs]
        self.has_seed = "seed" in self.params
        self.reads = {}  # source -> first line (direct and transitive through unseeded callees)


def direct_events(fn, infos):
    """Yield (lineno, kind, detail) in statement order.
    kinds: seed(source) · read(source) · local_rng(name, seeded?) · call_seeded(callee, passes_seed)
           · call_unseeded(callee) · ext_hidden(name, fixed?) · ext_seed(name, passes_seed)"""
    out = []
    local_rng = {}

    def visit_stmt(st, guarded):
        for n in ast.walk(st):
            if isinstance(n, ast.Assign) and isinstance(n.value, ast.Call):
                ch = _chain(n.value.func)
                if ch and ch[-1] in ("default_rng", "RandomState"):
                    seeded = any(mentions(a, "seed") for a in n.value.args) or any(mentions(k.value, "seed") for k in n.value.keywords)
                    for t in n.targets:
                        if isinstance(t, ast.Name):
                            local_rng[t.id] = seeded
                            out.append((n.lineno, "local_rng", (t.id, seeded)))
        calls = [n for n in ast.walk(st) if isinstance(n, ast.Call)]
        calls.sort(key=lambda n: (n.lineno, n.col_offset))
        for n in calls:
            ch = _chain(n.func)
            if not ch:
                continue
            passes_seed = any(mentions(a, "seed") for a in n.args) or any(mentions(k.value, "seed") for k in n.keywords)
            if ch[0] == "random" and len(ch) == 2:
                if ch[1] == "seed":
                    out.append((n.lineno, "seed", ("py", passes_seed)))
                elif ch[1] in PY_READS:
                    out.append((n.lineno, "read", "py"))
            elif len(ch) == 3 and ch[0] in ("np", "numpy") and ch[1] == "random":
                if ch[2] == "seed":
                    out.append((n.lineno, "seed", ("np", passes_seed)))
                elif ch[2] not in NP_NOT_READS:
                    out.append((n.lineno, "read", "np"))
            elif len(ch) == 2 and ch[0] in local_rng:
                if not local_rng[ch[0]]:
                    out.append((n.lineno, "read", "unseeded local generator `%s`" % ch[0]))
            else:
                name = ch[-1]
                if name in infos and (len(ch) == 1 or ch[0] in ("xgi",)):
                    g = infos[name]
                    if g.has_seed:
                        out.append((n.lineno, "call_seeded", (name, passes_seed)))
                    else:
                        out.append((n.lineno, "call_unseeded", name))
                elif name in EXT_HIDDEN:
                    kw, what = EXT_HIDDEN[name]
                    fixed = kw is not None and any(k.arg == kw for k in n.keywords)
                    out.append((n.lineno, "ext_hidden", (name, fixed, what)))
                elif name in EXT_TAKES_SEED and name not in ("default_rng", "RandomState"):
                    out.append((n.lineno, "ext_seed", (name, passes_seed)))

    for st in fn.body:
        visit_stmt(st, False)
    return out


def analyse():
    funcs, methods = all_functions()
    infos = {}
    for q, (rel, fn) in funcs.items():  # keyed by bare name (callee lookup is by name); a function with a seed parameter wins a name clash
        name = q.rsplit("::", 1)[-1]
        i = FnInfo(name, rel, fn)
        if name not in infos or (i.has_seed and not infos[name].has_seed):
            infos[name] = i
    ev = {name: direct_events(i.fn, infos) for name, i in infos.items()}
    # transitive read sets of functions without a seed parameter
    for _ in range(5):
        for name, i in infos.items():
            for ln, kind, d in ev[name]:
                if kind == "read":
                    i.reads.setdefault(d, ln)
                elif kind == "call_unseeded":
                    for src, l2 in infos[d].reads.items():
                        i.reads.setdefault(src, ln)
                elif kind == "call_seeded":
                    for src, l2 in infos[d[0]].reads.items():
                        i.reads.setdefault(src, ln)
                elif kind == "ext_hidden" and not d[1]:
                    i.reads.setdefault(d[2], ln)
    obligations = []
    for name, i in sorted(infos.items()):
        if not i.has_seed:
            continue
        seeded = set()
        problems = []
        nreads = 0
        for ln, kind, d in ev[name]:
            if kind == "seed":
                if d[1]:
                    seeded.add(d[0])
                else:
                    problems.append("L%d seeds `%s` with something other than the seed parameter" % (ln, d[0]))
            elif kind == "read":
                nreads += 1
                if d not in seeded:
                    problems.append("L%d reads generator `%s` before it is seeded with the seed parameter" % (ln, d))
            elif kind == "call_unseeded":
                for src in infos[d].reads:
                    nreads += 1
                    if src not in seeded:
                        problems.append("L%d calls %s() which reads `%s`, not seeded here" % (ln, d, src))
            elif kind == "call_seeded":
                nreads += 1
                # without the seed the callee does not re-seed: it reads generators in whatever state
                # this function left them, which is determined iff they were seeded here
                if not d[1]:
                    for src in infos[d[0]].reads:
                        if src not in seeded:
                            problems.append("L%d calls seeded function %s() without passing the seed, and `%s` is not seeded here" % (ln, d[0], src))
            elif kind == "ext_seed":
                nreads += 1
                if not d[1]:
                    problems.append("L%d calls %s() without passing the seed" % (ln, d[0]))
            elif kind == "ext_hidden":
                nreads += 1
                if not d[1]:
                    problems.append("L%d calls %s() which draws from %s" % (ln, d[0], d[2]))
            elif kind == "local_rng":
                if not d[1]:
                    problems.append("L%d creates generator `%s` without the seed" % (ln, d[0]))
        obligations.append(dict(function=name, where="%s::%s" % (i.rel, name), problems=problems, sources=nreads))
    return obligations
