"""Bounded stand-in for C07 (runs under /venv/bin/python): copy(), pickle round trip and the
own-class constructor give an equal network; afterwards structural edits on either side and in-place
changes of nested attribute values reached through copy() are invisible on the other side, and both
sides keep assigning fresh edge ids.
stdout: JSON {checks, violations:[{what, net, detail}]}
"""
import copy
import json
import pickle
import sys
import warnings

sys.path.insert(0, sys.argv[1] if len(sys.argv) > 1 else "/repo")
import xgi  # noqa: E402

V = []
N = [0]


def check(cond, what, net, detail=""):
    N[0] += 1
    if not cond:
        V.append({"what": what, "net": net, "detail": str(detail)[:300]})


def state(H):
    if isinstance(H, xgi.DiHypergraph):
        E = {k: (set(v["in"]), set(v["out"])) for k, v in H._edge.items()}
        Nn = {k: (set(v["in"]), set(v["out"])) for k, v in H._node.items()}
    else:
        E = {k: set(v) for k, v in H._edge.items()}
        Nn = {k: set(v) for k, v in H._node.items()}
    return dict(nodes=list(H._node), edges=list(H._edge), N=Nn, E=E, NA=copy.deepcopy(dict(H._node_attr)),
                EA=copy.deepcopy(dict(H._edge_attr)), net=copy.deepcopy(dict(H._net_attr)))


def same(a, b, ordered=True):
    if not ordered:
        a = dict(a, nodes=set(a["nodes"]), edges=set(a["edges"]))
        b = dict(b, nodes=set(b["nodes"]), edges=set(b["edges"]))
    return a == b


def nets():
    out = []
    H = xgi.Hypergraph()
    H.add_nodes_from([(3, {"hist": [1, 2], "pos": {"xy": [0.0, 1.0]}}), (1, {"c": "red"}), "iso"])
    H.add_edges_from([([3, 1], 5, {"w": [1]}), ([2], 6, {}), ([], "empty", {}), ([1, 2], 2, {"tags": {"a": [1]}})])
    H["meta"] = {"k": [1, 2]}
    out.append(("H", H))
    D = xgi.DiHypergraph()
    D.add_nodes_from([("a", {"hist": [1, 2], "pos": {"xy": [1.0]}}), ("iso", {})])
    D.add_edges_from([((["a", "b"], ["b", "c"]), 3, {"w": [1]}), ((["c"], []), 0, {"t": {"q": [0]}})])
    D["meta"] = {"k": [1]}
    out.append(("DH", D))
    S = xgi.SimplicialComplex()
    S.add_nodes_from([(1, {"hist": [1]}), (9, {})])
    S.add_simplices_from([([1, 2, 3], "t", {"w": [1]}), ([3, 4], 7, {"z": {"a": [0]}})])
    S["meta"] = {"k": [1]}
    out.append(("SC", S))
    # ids that are themselves iterable (tuples as produced by merge_duplicate_edges(rename="tuple"), frozensets), first in the table
    H = xgi.Hypergraph()
    H.add_edge([1, 2], idx=("a", "b"))
    H.add_edge([2, 3], idx=frozenset({7}))
    H.add_edge([3, 4], idx=2)
    out.append(("H-iterable-ids", H))
    D = xgi.DiHypergraph()
    D.add_edge(([1, 2], [3]), idx=("a", "b"))
    D.add_edge(([3], [4]), idx=5)
    D.add_edge(([4], [1, 2]), idx=frozenset({7}))
    out.append(("DH-iterable-ids", D))
    S = xgi.SimplicialComplex()
    S.add_simplex([1, 2, 3], idx=("t", 1))
    S.add_simplex([3, 4], idx=4)
    out.append(("SC-iterable-ids", S))
    # a complex that is no longer downward closed (the inherited random_edge_shuffle moved nodes between two triangles): copy() and the
    # constructor re-close it, so equality with the source is not demanded here (label suffix "!noeq") - but no id may be handed out twice
    import random
    st = random.getstate()
    random.seed(0)
    S = xgi.SimplicialComplex()
    S.add_simplices_from([[1, 2, 3], [4, 5, 6]])
    try:
        S.random_edge_shuffle(0, 1)
        out.append(("SC-not-closed!noeq", S))
    except Exception:  # noqa
        pass
    random.setstate(st)
    return out


_ctr = [0]


def add_auto(H):
    before = set(H._edge)
    snap = state(H)
    _ctr[0] += 1
    a, b, c3 = "p%d" % _ctr[0], "q%d" % _ctr[0], "r%d" % _ctr[0]
    if isinstance(H, xgi.DiHypergraph):
        H.add_edge(([a, b], [c3]))
    elif isinstance(H, xgi.SimplicialComplex):
        H.add_simplex([a, b])
    else:
        H.add_edge([a, b])
    new = set(H._edge) - before
    ok = len(new) == 1 and all(H._edge[e] == v or (isinstance(v, tuple)) or set(H._edge[e]) == v for e, v in snap["E"].items() if e in H._edge) and before <= set(H._edge)
    if isinstance(H, xgi.DiHypergraph):
        ok = ok and all((set(H._edge[e]["in"]), set(H._edge[e]["out"])) == snap["E"][e] for e in before)
    else:
        ok = ok and all(set(H._edge[e]) == snap["E"][e] for e in before)
    return ok


def mutate_nested(d):
    for k, v in d.items():
        if isinstance(v, list):
            v.append("X")
            return True
        if isinstance(v, dict) and mutate_nested(v):
            return True
    return False


def main():
    for label, H in nets():
        makers = {"copy": lambda H=H: H.copy(), "pickle": lambda H=H: pickle.loads(pickle.dumps(H)), "constructor": lambda H=H: H.__class__(H)}
        for how, mk in makers.items():
            try:
                with warnings.catch_warnings():
                    warnings.simplefilter("ignore")
                    C = mk()
            except Exception as e:  # noqa
                check(False, "%s raised" % how, label, repr(e))
                continue
            s0 = state(H)
            if not (label.endswith("!noeq") and how != "pickle"):
                check(same(state(C), s0), "%s is equal to the source" % how, label, (state(C)["edges"], s0["edges"]))
            check(type(C) is type(H) and not C.is_frozen, "%s has the same class and is editable" % how, label)
            # structural independence, both directions
            with warnings.catch_warnings():
                warnings.simplefilter("ignore")
                C.add_node("newnode")
                if isinstance(C, xgi.SimplicialComplex):
                    C.remove_simplex_id(list(C._edge)[0])
                else:
                    C.remove_edge(list(C._edge)[0])
                C.remove_node(list(C._node)[0])
            check(same(state(H), s0), "editing the %s does not change the source" % how, label)
            with warnings.catch_warnings():
                warnings.simplefilter("ignore")
                C2 = mk()
                s2 = state(C2)
                H2 = mk()  # work on a second copy as "source" stand-in to keep H pristine
                H2.add_node("src-new")
                H2.remove_node(list(H2._node)[0])
            check(same(state(C2), s2), "editing one copy does not change another", label)
            # fresh ids on both sides
            with warnings.catch_warnings():
                warnings.simplefilter("ignore")
                C3, C4 = mk(), mk()
                check(all([add_auto(C3) for _ in range(5)]) and add_auto(C4), "%s keeps assigning fresh edge ids" % how, label, list(C3._edge))
            # nested attribute values (copy() must be deep; pickle is deep by construction)
            if how in ("copy", "pickle"):
                with warnings.catch_warnings():
                    warnings.simplefilter("ignore")
                    C5 = mk()
                for tab in ("_node_attr", "_edge_attr"):
                    for k, d in getattr(C5, tab).items():
                        mutate_nested(d)
                mutate_nested(C5._net_attr)
                check(same(state(H), s0), "in-place change of nested attribute values through %s() is invisible in the source" % how, label)
        with warnings.catch_warnings():
            warnings.simplefilter("ignore")
            try:
                check(add_auto(H.copy()) and same(state(H), state(H)), "source unaffected", label)
            except Exception as e:  # noqa
                check(False, "copy raised", label, repr(e))
    json.dump({"checks": N[0], "violations": V}, sys.stdout)


if __name__ == "__main__":
    main()
