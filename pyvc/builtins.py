"""Modelled built-ins and library calls (DESIGN 1.3).  Each is part of the trusted base.

Everything here states what the *Python runtime* does; nothing here knows about xgi.
"""
import ast

import z3

from .values import *
from .symexec import (SymRaise, Unsupported, VDictKeys, VDictItems, VDictValues, VRange, VFactoryResult,
                      PathEnd)

TRUSTED = [
    "set/frozenset/list/len/next/iter/isinstance/issubclass/type/float/int semantics as modelled in pyvc/builtins.py",
    "dict and set methods (add remove discard copy union intersection difference update clear keys values items get)",
    "itertools.count, copy.copy(count), copy.deepcopy (returns an equal value)",
    "warnings.warn has no effect on program state other than the ghost flag `warned`",
    "random.sample(population, k): k distinct positions of population, ValueError if k > len or k < 0",
]


class VTypeOf(V):
    def __init__(self, of):
        self.of = of


class VSample(V):
    pass


def _iter_to_set(ex, x, w, frozen):
    """set(x) / frozenset(x)."""
    c = ex.c
    if isinstance(x, VSet):
        return VSet(x.get(), frozen=frozen)
    if isinstance(x, VVal):
        c.val(x.term)
        if not ex.branch(c.iterable(x.term)):
            raise SymRaise("TypeError", w)
        if not ex.branch(c.elems_hashable(x.term)):
            raise SymRaise("TypeError", w)
        cont = ex.consume(x.term)
        # language guarantee: the elements of a set are hashable
        ex.assume(c.forall(["id"], lambda n: z3.Implies(z3.Select(cont, n), c.hashable(n))))
        return VSet(cont, frozen=frozen)
    if isinstance(x, (VTuple, VList)) and x.items is not None:
        s = c.EMPTY
        for it in x.items:
            s = c.add(s, ex.key_term(it, w))
        return VSet(s, frozen=frozen)
    if isinstance(x, VList) and getattr(x, "content", None) is not None:
        return VSet(x.content, frozen=frozen)
    if isinstance(x, (VDict, VDictKeys)):
        d = x if isinstance(x, VDict) else x.d
        return VSet(d.keys, frozen=frozen)
    if isinstance(x, VView):
        d = x.net.f["_node" if x.which == "nodes" else "_edge"]
        return VSet(d.keys, frozen=frozen)
    if isinstance(x, VAttr):
        return VSet(x.get()[0], frozen=frozen)
    raise Unsupported("set(%s)" % type(x).__name__)


def _isinstance(ex, x, t, w):
    """z3 Bool for isinstance(x, t)."""
    c = ex.c
    if isinstance(t, VTuple):
        return z3.Or([_isinstance(ex, x, u, w) for u in t.items])
    name = t.name if isinstance(t, (VBuiltin, VClassRef)) else None
    if name is None:
        raise Unsupported("isinstance against %s" % type(t).__name__)
    if isinstance(x, VNet):
        k = x.kind
        if name == "Hypergraph":
            return z3.BoolVal(k in ("H", "SC"))
        if name == "SimplicialComplex":
            return z3.BoolVal(k == "SC")
        if name == "DiHypergraph":
            return z3.BoolVal(k == "DH")
        return z3.BoolVal(False)
    if isinstance(x, VVal):
        c.val(x.term)
        tt = x.term
        table = {"str": c.is_str(tt), "tuple": c.is_tuple(tt), "list": c.is_list(tt), "dict": c.is_dict(tt),
                 "Iterable": c.iterable(tt), "Hashable": c.hashable(tt), "int": c.is_int(tt),
                 "np.integer": c.is_int(tt), "numpy.integer": c.is_int(tt), "float": z3.And(c.floatable(tt), z3.Not(c.is_int(tt))),
                 "np.floating": z3.And(c.floatable(tt), z3.Not(c.is_int(tt)))}
        if name in table:
            return table[name]
        if name in ("Hypergraph", "DiHypergraph", "SimplicialComplex", "set", "frozenset"):
            f = z3.Function("isinst_" + name, c.Id, z3.BoolSort())
            return f(tt)
        raise Unsupported("isinstance(val, %s)" % name)
    py = {VSet: {"set", "Iterable"}, VList: {"list", "Iterable"}, VTuple: {"tuple", "Iterable", "Hashable"},
          VStr: {"str", "Iterable", "Hashable"}, VInt: {"int", "Hashable"}, VAttr: {"dict", "Iterable"},
          VDict: {"dict", "Iterable"}, VBool: {"int", "Hashable"}}
    for cls, names in py.items():
        if isinstance(x, cls):
            if isinstance(x, VSet) and x.frozen:
                return z3.BoolVal(name in ("frozenset", "Iterable", "Hashable"))
            return z3.BoolVal(name in names)
    raise Unsupported("isinstance(%s, %s)" % (type(x).__name__, name))


def call_builtin(ex, name, args, kw, star, node):
    c = ex.c
    w = ex.where(ex.cur)
    if name == "set" or name == "frozenset":
        if not args:
            return VSet(c.EMPTY, frozen=(name == "frozenset"))
        return _iter_to_set(ex, args[0], w, name == "frozenset")
    if name == "list":
        if not args:
            return VList([])
        x = args[0]
        if isinstance(x, VVal):
            c.val(x.term)
            if not ex.branch(c.iterable(x.term)):
                raise SymRaise("TypeError", w)
            f = z3.Function("list_of", c.Id, c.Id)
            t = c.val(f(x.term))
            cont = ex.consume(x.term)
            ex.assume(z3.And(c.is_list(t), c.content(t) == cont, c.elems_hashable(t) == c.elems_hashable(x.term),
                             t != c.NONE, z3.Not(c.intlike(t)), z3.Not(c.is_str(t)),
                             (c.len_of(t) == 0) == (cont == c.EMPTY)))
            return VVal(t)
        if isinstance(x, (VTuple, VList)) and x.items is not None:
            return VList(list(x.items))
        if isinstance(x, (VDict, VDictKeys, VView, VSet)):
            s = _iter_to_set(ex, x, w, False).get()
            l = VList(None, c.card(s), c.fresh("lst", c.SeqId))
            l.content = s
            return l
        if isinstance(x, VGen):
            from .comprehend import gen_to_list
            return gen_to_list(ex, x)
        raise Unsupported("list(%s)" % type(x).__name__)
    if name == "tuple":
        x = args[0]
        if isinstance(x, (VTuple, VList)) and x.items is not None:
            return VTuple(list(x.items))
        raise Unsupported("tuple(%s)" % type(x).__name__)
    if name == "dict":
        if not args and not kw:
            return VAttr(c.EMPTY, c.fresh("dv", c.MapVal))
        raise Unsupported("dict(...) with arguments")
    if name == "len":
        x = args[0]
        if isinstance(x, VSet):
            return VInt(c.card(x.get()))
        if isinstance(x, (VDict, VDictKeys)):
            d = x if isinstance(x, VDict) else x.d
            return VInt(c.card(d.keys))
        if isinstance(x, VNet):
            return VInt(c.card(x.f["_node"].keys))
        if isinstance(x, VView):
            return VInt(c.card(x.net.f["_node" if x.which == "nodes" else "_edge"].keys))
        if isinstance(x, (VTuple, VList)) and x.items is not None:
            return VInt(len(x.items))
        if isinstance(x, VList):
            return VInt(x.ln)
        if isinstance(x, VAttr):
            return VInt(c.card(x.get()[0]))
        if isinstance(x, VVal):
            c.val(x.term)
            f = z3.Function("sized", c.Id, z3.BoolSort())
            if not ex.branch(f(x.term)):
                raise SymRaise("TypeError", w)
            if getattr(ex.spec, "len_axioms", False):
                c.len_axiom(x.term)
            return VInt(c.len_of(x.term))
        raise Unsupported("len(%s)" % type(x).__name__)
    if name == "next":
        x = args[0]
        if isinstance(x, VCounter):
            v = x.next
            x.next = v + 1
            return VInt(v)
        if isinstance(x, VIter):
            n = z3.Function("iter_len", c.Id, z3.IntSort())(x.src)
            ex.assume(n >= 0)
            if not ex.branch(x.pos < n):
                if len(args) > 1:
                    return args[1]
                raise SymRaise("StopIteration", w)
            nth = z3.Function("iter_nth", c.Id, z3.IntSort(), c.Id)
            t = c.val(nth(x.src, x.pos))
            ex.assume(z3.Implies(c.elems_hashable(x.src), c.hashable(t)))
            x.pos = x.pos + 1
            return VVal(t)
        raise Unsupported("next(%s)" % type(x).__name__)
    if name == "iter":
        x = args[0]
        if isinstance(x, VVal):
            c.val(x.term)
            if not ex.branch(c.iterable(x.term)):
                raise SymRaise("TypeError", w)
            return VIter(x.term, z3.IntVal(0))
        if isinstance(x, VDict):
            return VDictKeys(x)
        raise Unsupported("iter(%s)" % type(x).__name__)
    if name == "isinstance":
        return VBool(_isinstance(ex, args[0], args[1], w))
    if name == "type":
        return VTypeOf(args[0])
    if name == "issubclass":
        if isinstance(args[0], VTypeOf):
            return VBool(_isinstance(ex, args[0].of, args[1], w))
        raise Unsupported("issubclass")
    if name == "warn":
        ex.warned = z3.BoolVal(True)
        for n in ex.nets.values():
            n.warned = z3.BoolVal(True)
        return VVal(c.NONE)
    if name == "deepcopy":
        x = args[0]
        if isinstance(x, VVal):
            v = VVal(x.term)
            v.deep = True
            return v
        if isinstance(x, VAttr):
            has, val = x.get()
            a = VAttr(has, val)
            a.deep = True
            return a
        raise Unsupported("deepcopy(%s)" % type(x).__name__)
    if name == "copy":
        x = args[0]
        if isinstance(x, VCounter):
            return VCounter(x.next)
        raise Unsupported("copy(%s)" % type(x).__name__)
    if name == "count":
        start = kw.get("start", args[0] if args else VInt(0))
        return VCounter(ex.tint(start))
    if name == "float":
        x = args[0]
        if isinstance(x, VVal):
            c.val(x.term)
            if not ex.branch(c.floatable(x.term)):
                # float(None) / float(frozenset) -> TypeError; float("abc") -> ValueError
                if ex.branch(c.is_str(x.term)):
                    raise SymRaise("ValueError", w)
                raise SymRaise("TypeError", w)
            return VFloat(x)
        if isinstance(x, VInt):
            return VFloat(x)
        raise Unsupported("float(%s)" % type(x).__name__)
    if name == "int":
        x = args[0]
        if isinstance(x, VFloat):
            x = x.of
        if isinstance(x, VInt):
            return x
        if isinstance(x, VVal):
            if not ex.branch(c.intlike(x.term)):
                raise Unsupported("int() of non-integral value")
            return VInt(c.int_of(x.term))
        raise Unsupported("int(%s)" % type(x).__name__)
    if name == "all" or name == "any":
        x = args[0]
        if isinstance(x, VGen):
            from .comprehend import gen_all_any
            return gen_all_any(ex, x, name)
        raise Unsupported("%s(%s)" % (name, type(x).__name__))
    if name == "frozen":
        raise SymRaise("XGIError", w)
    if name == "random.sample":
        pop, k = args[0], args[1]
        if not isinstance(pop, VList):
            raise Unsupported("random.sample of %s" % type(pop).__name__)
        kk = z3.simplify(ex.tint(k))
        ln = pop.ln if pop.items is None else z3.IntVal(len(pop.items))
        if not ex.branch(z3.And(kk >= 0, kk <= ln)):
            raise SymRaise("ValueError", w)
        cont = getattr(pop, "content", None)
        if cont is None:
            raise Unsupported("random.sample of a list whose content is unknown")
        if z3.is_int_value(kk):
            # k distinct positions of a duplicate-free list: k distinct elements
            items = []
            for j in range(kk.as_long()):
                t = c.val(c.fresh("smp", c.Id))
                ex.assume(z3.Select(cont, t))
                for o in items:
                    ex.assume(t != o.term)
                items.append(VVal(t))
            return VList(items)
        s = c.fresh("smp", c.SetId)
        ex.assume(c.subset(s, cont))
        ex.assume(c.card(s) == kk)
        l = VList(None, kk, c.fresh("smpl", c.SeqId))
        l.content = s
        return l
    if name == "random.random":
        return VOpaque("float")
    if name == "random.seed":
        return VVal(c.NONE)
    if name in ("dict.__getitem__", "dict.__setitem__", "dict.__delitem__"):
        d = args[0]
        if not isinstance(d, VDict):
            raise Unsupported("%s on %s" % (name, type(d).__name__))
        if name == "dict.__getitem__":
            return ex.getitem(d, args[1], w)
        if name == "dict.__setitem__":
            ex.setitem(d, args[1], args[2], w)
            return VVal(c.NONE)
        ex.delitem(d, args[1], w)
        return VVal(c.NONE)
    if name == "defaultdict":
        t = c.fresh_id("ddict")
        ex.assume(z3.And(c.is_dict(t), t != c.NONE))
        return VVal(t)
    if name == "range":
        if len(args) == 1:
            return VRange(z3.IntVal(0), ex.tint(args[0]), 1)
        if len(args) == 2:
            return VRange(ex.tint(args[0]), ex.tint(args[1]), 1)
        raise Unsupported("range with a step")
    if name == "sum":
        x = args[0]
        if isinstance(x, VGen):
            from .comprehend import gen_count
            return gen_count(ex, x)
        raise Unsupported("sum(%s)" % type(x).__name__)
    if name == "min" or name == "max" or name == "sorted":
        raise Unsupported("builtin %s" % name)
    raise Unsupported("builtin %s" % name)


def _attr_update(ex, a, other, w, kw=None):
    """dict.update on an attribute record."""
    c = ex.c
    has, val = a.get()
    if other is not None:
        if isinstance(other, VAttr):
            oh, ov = other.get()
        elif isinstance(other, VVal):
            c.val(other.term)
            if not ex.branch(c.is_dict(other.term)):
                # dict.update(non-mapping): TypeError (not iterable / bad element) or ValueError (bad length)
                if ex.choose(2) == 0:
                    raise SymRaise("TypeError", w)
                raise SymRaise("ValueError", w)
            oh, ov = c.akeys(other.term), c.avals(other.term)
        elif isinstance(other, VFactoryResult):
            oh, ov = c.EMPTY, val
        else:
            raise Unsupported("update(%s)" % type(other).__name__)
        has = c.union(has, oh)
        val = c.mapof(lambda x, oh=oh, ov=ov, val=val: z3.If(z3.Select(oh, x), z3.Select(ov, x), z3.Select(val, x)), val)
    for k, v in (kw or {}).items():
        kt = c.strlit(k)
        has = c.add(has, kt)
        val = z3.Store(val, kt, ex.as_val(v))
    a.put(has, val)


def call_method(ex, obj, name, args, kw, star, node):
    c = ex.c
    w = ex.where(ex.cur)
    if isinstance(obj, VSet):
        if name in ("add", "remove", "discard", "update", "clear", "difference_update", "intersection_update") and obj.frozen:
            raise SymRaise("AttributeError", w)
        if name == "add":
            k = ex.key_term(args[0], w)
            obj.put(c.add(obj.get(), k))
            return VVal(c.NONE)
        if name == "remove":
            k = ex.key_term(args[0], w)
            if not ex.branch(z3.Select(obj.get(), k)):
                raise SymRaise("KeyError", w)
            obj.put(c.rem(obj.get(), k))
            return VVal(c.NONE)
        if name == "discard":
            k = ex.key_term(args[0], w)
            obj.put(c.rem(obj.get(), k))
            return VVal(c.NONE)
        if name == "copy":
            return VSet(obj.get(), frozen=obj.frozen)
        if name in ("union", "intersection", "difference"):
            r = obj.get()
            for a in args:
                b = _iter_to_set(ex, a, w, False).get()
                r = c.union(r, b) if name == "union" else c.inter(r, b) if name == "intersection" else c.diff(r, b)
            return VSet(r, frozen=obj.frozen)
        if name == "update":
            r = obj.get()
            for a in args:
                r = c.union(r, _iter_to_set(ex, a, w, False).get())
            obj.put(r)
            return VVal(c.NONE)
        if name == "clear":
            obj.put(c.EMPTY)
            return VVal(c.NONE)
        if name == "issubset":
            return VBool(c.subset(obj.get(), _iter_to_set(ex, args[0], w, False).get()))
        raise Unsupported("set.%s" % name)
    if isinstance(obj, VDict):
        if name == "keys":
            return VDictKeys(obj)
        if name == "values":
            return VDictValues(obj)
        if name == "items":
            return VDictItems(obj)
        if name == "clear":
            for b in list(obj.borrows):
                b.detach()
            obj.borrows = []
            obj.keys = c.EMPTY
            return VVal(c.NONE)
        if name == "copy":
            # shallow copy: a new dict object whose values are the same objects; modelled as a
            # read-only snapshot (stores into it are Unsupported via kind 'snapshot')
            d = VDict("dict" if obj.kind == "dict" else "iddict", obj.valkind, obj.keys, obj.fields)
            d.snapshot = True
            return d
        raise Unsupported("dict.%s" % name)
    if isinstance(obj, VAttr):
        if name == "update":
            _attr_update(ex, obj, args[0] if args else (star if star is not None else None), w, kw)
            return VVal(c.NONE)
        if name == "copy":
            has, val = obj.get()
            return VAttr(has, val)
        if name == "clear":
            obj.put(c.EMPTY, obj.get()[1])
            return VVal(c.NONE)
        if name == "get":
            k = ex.key_term(args[0], w)
            has, val = obj.get()
            if ex.pure:
                dflt = ex.tid(args[1]) if len(args) > 1 else c.NONE
                return VVal(z3.If(z3.Select(has, k), z3.Select(val, k), dflt))
            if ex.branch(z3.Select(has, k)):
                return VVal(c.val(z3.Select(val, k)))
            return args[1] if len(args) > 1 else VVal(c.NONE)
        raise Unsupported("attrdict.%s" % name)
    if isinstance(obj, VVal):
        c.val(obj.term)
        if name == "items":
            if not ex.branch(c.is_dict(obj.term)):
                raise SymRaise("AttributeError", w)
            return VValItems(obj)
        if name == "copy":
            return obj
        raise Unsupported("method %s on abstract value" % name)
    if isinstance(obj, VFloat):
        if name == "is_integer":
            of = obj.of
            if isinstance(of, VInt):
                return VBool(True)
            return VBool(c.intlike(of.term))
    if isinstance(obj, VList):
        if name == "append":
            if obj.items is not None:
                obj.items.append(args[0])
            else:
                obj.ln = obj.ln + 1
                if getattr(obj, "content", None) is not None:
                    try:
                        obj.content = c.add(obj.content, ex.tid(args[0]))
                    except Unsupported:
                        obj.content = None
            return VVal(c.NONE)
        if name == "extend":
            ex.list_extend(obj, args[0])
            return VVal(c.NONE)
        raise Unsupported("list.%s" % name)
    if isinstance(obj, VRec):
        if name == "copy":
            # dict.copy of {"in": s1, "out": s2}: a new record sharing the two set objects.  Only
            # read accesses are supported on the copy (a write would alias the table entry).
            r = VRec(obj.get("in"), obj.get("out"))
            r.readonly = True
            return r
    if isinstance(obj, VView):
        from .views_model import view_method
        return view_method(ex, obj, name, args, kw, node)
    raise Unsupported("method %s on %s" % (name, type(obj).__name__))


class VValItems(V):
    """.items() of an abstract dict-valued Val."""

    def __init__(self, v):
        self.v = v
