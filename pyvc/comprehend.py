"""Generator expressions and comprehensions (DESIGN 1.3), evaluated where they are consumed."""
import ast

import z3

from .values import *
from .symexec import Unsupported, SymRaise


def gen_all_any(ex, g, which):
    """all(...) / any(...) over a generator: an unconstrained Bool, after consuming the source.

    Sound as a havoc (both outcomes are explored); the source iterable is marked consumed.
    """
    c = ex.c
    node = g.node
    if len(node.generators) != 1:
        raise Unsupported("nested generator in all/any")
    src = ex.ev(node.generators[0].iter, g.env)
    if isinstance(src, VVal):
        c.val(src.term)
        if not ex.branch(c.iterable(src.term)):
            raise SymRaise("TypeError", ex.where(ex.cur))
        ex.consume(src.term)
        f = z3.Function("%s_%s" % (which, abs(hash(ast.dump(node))) % 100000), c.Id, z3.BoolSort())
        return VBool(f(src.term))
    return VBool(c.fresh(which, z3.BoolSort()))


def gen_to_list(ex, g):
    raise Unsupported("list(generator)")
