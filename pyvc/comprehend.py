"""Generator expressions and comprehensions (DESIGN 1.3), evaluated where they are consumed."""
import ast

import z3

from .values import *
from .symexec import Unsupported, SymRaise


def gen_all_any(ex, g, which):
    """all(...) / any(...) over a generator: an unconstrained Bool, after consuming the source.

    Sound as a havoc (both outcomes are explored); the source iterable is marked consumed.
    """
    c = ex.c
    node = g.node
    if len(node.generators) != 1:
        raise Unsupported("nested generator in all/any")
    src = ex.ev(node.generators[0].iter, g.env)
    if isinstance(src, VVal):
        c.val(src.term)
        if not ex.branch(c.iterable(src.term)):
            raise SymRaise("TypeError", ex.where(ex.cur))
        ex.consume(src.term)
        f = z3.Function("%s_%s" % (which, abs(hash(ast.dump(node))) % 100000), c.Id, z3.BoolSort())
        return VBool(f(src.term))
    return VBool(c.fresh(which, z3.BoolSort()))


def gen_to_list(ex, g):
    raise Unsupported("list(generator)")


def listcomp(ex, node, env):
    """[k for k, v in d.items() if cond(k, v)]  /  [k for k in d if cond(k)]  over a table d:
    a duplicate-free list whose element set is {k in keys(d) | cond}; order unspecified."""
    from .symexec import VDictItems, VDictKeys
    c = ex.c
    if len(node.generators) != 1:
        raise Unsupported("nested list comprehension")
    g = node.generators[0]
    if not (isinstance(g.iter, ast.Call) and isinstance(g.iter.func, ast.Attribute) and g.iter.func.attr == "items"):
        return listcomp_general(ex, node, env)
    src = ex.ev(g.iter, env)
    if isinstance(src, VDictItems):
        d, items = src.d, True
    elif isinstance(src, (VDict, VDictKeys)):
        d, items = (src if isinstance(src, VDict) else src.d), False
    else:
        return listcomp_general(ex, node, env)
    tgt = g.target
    if items:
        if not (isinstance(tgt, ast.Tuple) and len(tgt.elts) == 2 and all(isinstance(t, ast.Name) for t in tgt.elts)):
            raise Unsupported("comprehension target")
        kname, vname = tgt.elts[0].id, tgt.elts[1].id
    else:
        if not isinstance(tgt, ast.Name):
            raise Unsupported("comprehension target")
        kname, vname = tgt.id, None
    if not (isinstance(node.elt, ast.Name) and node.elt.id == kname):
        raise Unsupported("comprehension element other than the key")

    def member(x):
        env2 = dict(env)
        env2[kname] = VVal(x)
        if vname:
            env2[vname] = ex.dict_value(d, x)
        conds = [z3.Select(d.keys, x)]
        old = ex.pure
        ex.pure = True
        try:
            for cnd in g.ifs:
                conds.append(ex.truth(ex.ev(cnd, env2)))
        finally:
            ex.pure = old
        return z3.And(conds)

    s = c.setof(member)
    l = VList(None, c.card(s) if c.mode == "g" else c.fresh("lclen", z3.IntSort()), c.fresh("lc", c.SeqId))
    l.content = s
    l.distinct = True
    return l


# ------------------------------------------------------------------ general single-generator comprehensions
def _abstract(ex, node, env, gen, body_fn):
    """Evaluate the comprehension body once for a fresh element x0 of the source (pure mode:
    no forking; partial operations record the condition under which they are defined).

    Returns (S, distinct, x0, conds, needs, results) where S is the source's content set."""
    c = ex.c
    src = ex.ev(gen.iter, env)
    S, distinct, kind, srcobj = ex.iter_source(src, node)
    if kind == "seq":
        raise Unsupported("comprehension over an abstract list")
    x0 = c.val(c.fresh("cx", c.Id))
    env2 = dict(env)

    class _N:  # minimal For-like holder for bind_loop_var
        target = gen.target
    old_pure, old_needs = ex.pure, getattr(ex, "pure_needs", None)
    ex.pure, ex.pure_needs = True, []
    try:
        ex.bind_loop_var(_N, kind, srcobj, x0, env2)
        conds = [ex.truth(ex.ev(cnd, env2)) for cnd in gen.ifs]
        results = body_fn(env2)
        needs = list(ex.pure_needs)
    finally:
        ex.pure, ex.pure_needs = old_pure, old_needs
    return S, distinct, x0, conds, needs, results, env2


def _defined_or_raise(ex, S, x0, conds, needs):
    """The comprehension raises when a partial operation in it is undefined for some element."""
    c = ex.c
    for need, exc in needs:
        ok = c.forall(["id"], lambda x: z3.Implies(z3.Select(S, x), z3.substitute(need, (x0, x))))
        if ex.pure:
            ex.pure_needs.append((ok, exc))  # nested comprehension: the enclosing one decides
        elif not ex.branch(ok):
            raise SymRaise(exc, ex.where(ex.cur))


def setcomp(ex, node, env):
    c = ex.c
    if len(node.generators) == 2:
        return setcomp2(ex, node, env)
    if len(node.generators) != 1:
        raise Unsupported("set comprehension with %d generators" % len(node.generators))
    S, distinct, x0, conds, needs, elt, env2 = _abstract(ex, node, env, node.generators[0], lambda e2: ex.ev(node.elt, e2))
    _defined_or_raise(ex, S, x0, conds, needs)
    et = ex.tid(elt)
    guard = z3.And([z3.Select(S, x0)] + conds)
    if et.eq(x0):
        return VSet(c.setof(lambda x: z3.substitute(guard, (x0, x))))
    return VSet(c.setof(lambda z: c.exists(["id"], lambda x: z3.And(z3.substitute(guard, (x0, x)), z == z3.substitute(et, (x0, x))))))


def setcomp2(ex, node, env):
    """{elt for a in A for b in B(a) if cond}: z in result <=> exists a in A, b in B(a): cond and z == elt."""
    c = ex.c
    g1, g2 = node.generators
    src = ex.ev(g1.iter, env)
    S1, d1, k1, o1 = ex.iter_source(src, node)
    a0 = c.val(c.fresh("ca", c.Id))
    b0 = c.val(c.fresh("cb", c.Id))
    env2 = dict(env)

    class _N1:
        target = g1.target

    class _N2:
        target = g2.target
    old_pure, old_needs = ex.pure, getattr(ex, "pure_needs", None)
    ex.pure, ex.pure_needs = True, []
    try:
        ex.bind_loop_var(_N1, k1, o1, a0, env2)
        c1 = [ex.truth(ex.ev(x, env2)) for x in g1.ifs]
        src2 = ex.ev(g2.iter, env2)
        S2, d2, k2, o2 = ex.iter_source(src2, node)
        ex.bind_loop_var(_N2, k2, o2, b0, env2)
        c2 = [ex.truth(ex.ev(x, env2)) for x in g2.ifs]
        elt = ex.tid(ex.ev(node.elt, env2))
        needs = list(ex.pure_needs)
    finally:
        ex.pure, ex.pure_needs = old_pure, old_needs
    for need, exc in needs:
        ok = c.forall(["id", "id"], lambda a, b: z3.Implies(
            z3.And(z3.Select(S1, a), z3.substitute(z3.Select(S2, b0), (a0, a), (b0, b))), z3.substitute(need, (a0, a), (b0, b))))
        if not ex.branch(ok):
            raise SymRaise(exc, ex.where(ex.cur))
    body = z3.And([z3.Select(S1, a0)] + c1 + [z3.Select(S2, b0)] + c2)
    return VSet(c.setof(lambda z: c.exists(["id", "id"], lambda a, b: z3.And(
        z3.substitute(body, (a0, a), (b0, b)), z == z3.substitute(elt, (a0, a), (b0, b))))))


def dictcomp(ex, node, env):
    """{k: v for k in src if cond} with the key being the loop variable: a finite map on a subset of src."""
    c = ex.c
    if len(node.generators) != 1:
        raise Unsupported("dict comprehension with several generators")
    S, distinct, x0, conds, needs, kv, env2 = _abstract(
        ex, node, env, node.generators[0], lambda e2: (ex.ev(node.key, e2), ex.ev(node.value, e2)))
    _defined_or_raise(ex, S, x0, conds, needs)
    k, v = kv
    if not ex.tid(k).eq(x0):
        raise Unsupported("dict comprehension whose key is not the loop variable")
    guard = z3.And([z3.Select(S, x0)] + conds)
    keys = c.setof(lambda x: z3.substitute(guard, (x0, x)))
    if isinstance(v, (VInt, VBool)):
        vt = ex.tint(v)
        arr = c.mapof(lambda x: z3.substitute(vt, (x0, x)), z3.K(c.Id, z3.IntVal(0)))
        return VDict("dict", "int", keys, {"v": arr})
    if isinstance(v, VSet):
        st = v.get()
        arr = c.mapof(lambda x: z3.substitute(st, (x0, x)), c.fresh("dcj", c.MapSet))
        d = VDict("dict", "set", keys, {"v": arr})
        d.fresh_values = v.home is None  # values are copies (not the table's own set objects)
        return d
    vt = ex.as_val(v)
    arr = c.mapof(lambda x: z3.substitute(vt, (x0, x)), c.fresh("dcv", c.MapVal))
    return VDict("dict", "val", keys, {"v": arr})


def listcomp_general(ex, node, env):
    """[elt for x in src if cond]: tracked as its element set (+ duplicate-free flag)."""
    c = ex.c
    if len(node.generators) != 1:
        raise Unsupported("list comprehension with several generators")
    S, distinct, x0, conds, needs, elt, env2 = _abstract(ex, node, env, node.generators[0], lambda e2: ex.ev(node.elt, e2))
    _defined_or_raise(ex, S, x0, conds, needs)
    guard = z3.And([z3.Select(S, x0)] + conds)
    try:
        et = ex.tid(elt)
    except Unsupported:
        et = None
    if et is not None and et.eq(x0):
        s = c.setof(lambda x: z3.substitute(guard, (x0, x)))
        l = VList(None, c.card(s) if distinct else c.fresh("lclen", z3.IntSort()), c.fresh("lc", c.SeqId))
        l.content = s
        l.distinct = distinct
        return l
    if et is None:
        raise Unsupported("list comprehension of non-value elements")
    s = c.setof(lambda z: c.exists(["id"], lambda x: z3.And(z3.substitute(guard, (x0, x)), z == z3.substitute(et, (x0, x)))))
    l = VList(None, c.fresh("lclen", z3.IntSort()), c.fresh("lc", c.SeqId))
    l.content = s
    l.distinct = False
    return l


def gen_count(ex, g):
    """sum(1 for x in S if cond) / sum(cond(x) for x in S) over a duplicate-free source: the number of
    elements satisfying the condition."""
    c = ex.c
    node = g.node
    if len(node.generators) != 1:
        raise Unsupported("sum over nested generator")
    elt = node.elt
    is_one = isinstance(elt, ast.Constant) and elt.value == 1
    S, distinct, x0, conds, needs, r, env2 = _abstract(ex, node, g.env, node.generators[0],
                                                     lambda e2: None if is_one else ex.ev(elt, e2))
    if not distinct:
        raise Unsupported("sum over a source that may repeat elements")
    _defined_or_raise(ex, S, x0, conds, needs)
    extra = []
    if not is_one:
        if not isinstance(r, VBool):
            raise Unsupported("sum of non-boolean, non-constant terms")
        extra = [r.term]
    guard = z3.And([z3.Select(S, x0)] + conds + extra)
    return VInt(c.card(c.setof(lambda x: z3.substitute(guard, (x0, x)))))
