"""Replay of counter-models and concrete evaluation of contract clauses (DESIGN 2.3, 3.2).

The contract text has one meaning: to evaluate a clause on a concrete (pre, post) pair observed on
the real code, the pair is encoded as constant arrays over a finite id universe (the labels that
occur + one spare) and the same lambda is handed to z3; `unsat` of the negation = clause true.
"""
import json
import os
import subprocess
import sys

import z3

from . import extract
from .spec import Snap, REGISTRY
from .symexec import Args, exc_isa, Unsupported
from .values import VVal, VBool, VInt, VAttr, Shadow
from .z import Ctx

NATIVE_PY = "/venv/bin/python"
HERE = os.path.dirname(os.path.abspath(__file__))


def run_native(cases, repo=None, timeout=600):
    repo = repo or extract.REPO
    p = subprocess.run([NATIVE_PY, os.path.join(HERE, "native.py"), repo], input=json.dumps(cases).encode(),
                       stdout=subprocess.PIPE, stderr=subprocess.PIPE, timeout=timeout, cwd="/")
    if p.returncode != 0:
        raise RuntimeError("native worker failed: %s" % p.stderr.decode()[-2000:])
    return json.loads(p.stdout.decode())


# ---------------------------------------------------------------------------- labels
def lkey(e):
    """Canonical key of an encoded value under Python equality (True == 1 == 1.0)."""
    if e[0] in ("b", "fi"):
        return json.dumps(["i", int(e[1])])
    if e[0] in ("fs", "set"):
        return json.dumps([e[0], sorted(lkey(x) for x in e[1])])
    if e[0] in ("t", "l", "it"):
        return json.dumps([e[0], [lkey(x) for x in e[1]]])
    if e[0] in ("d", "idd"):
        return json.dumps(["d", [[lkey(k), lkey(v)] for k, v in e[1]]])
    return json.dumps(e)


def sublabels(e, out):
    out.append(e)
    if e[0] == "s":
        for ch in e[1]:
            if ch != e[1]:
                out.append(["s", ch])
    if e[0] in ("t", "fs", "set", "l", "it"):
        for x in e[1]:
            sublabels(x, out)
    elif e[0] in ("d", "idd"):
        for k, v in e[1]:
            sublabels(k, out)
            sublabels(v, out)


def net_labels(st, out):
    for row in st["node"] + st["edge"]:
        sublabels(row[0], out)
        for col in row[1:]:
            for x in col:
                sublabels(x, out)
    for row in st["node_attr"] + st["edge_attr"]:
        sublabels(row[0], out)
        sublabels(row[1], out)
    sublabels(st["net_attr"], out)


class Concrete:
    """Finite interpretation: labels -> enum ids, with the Val observers fixed to the Python facts.

    `domain` (optional): the labels quantifiers range over (ids occurring in tables / as arguments);
    every other label behaves like the spare id for a well-formed clause, so it is left out of the
    ground expansion (bounded stand-in only; proofs never use this class).
    """

    def __init__(self, labels, strs=(), domain=None):
        keys = []
        self.by_key = {}
        for e in labels:
            k = lkey(e)
            if k not in self.by_key:
                self.by_key[k] = e
                keys.append(k)
        self.k = len(keys) + 1
        self.c = Ctx("g", self.k)
        c = self.c
        self.id = {k: c.ids[i] for i, k in enumerate(keys)}
        self.spare = c.ids[-1]
        if domain is not None:
            dk = []
            for e in domain:
                k = lkey(e)
                if k in self.id and k not in dk:
                    dk.append(k)
            c.ids = [self.id[k] for k in dk] + [self.spare]
            self.all_ids = list(self.id.values()) + [self.spare]
        A = c.axioms
        none_key = lkey(["n"])
        if none_key in self.id:
            A.append(c.NONE == self.id[none_key])
        else:
            A.append(c.NONE == self.spare)
        B = z3.BoolVal
        for k, i in self.id.items():
            e = self.by_key[k]
            t = e[0]
            il = t in ("i", "b", "fi")
            A += [c.intlike(i) == B(il), c.is_int(i) == B(t in ("i", "b")), c.is_str(i) == B(t == "s"), c.is_tuple(i) == B(t == "t"),
                  c.is_list(i) == B(t == "l"), c.is_dict(i) == B(t in ("d", "idd")),
                  c.hashable(i) == B(self._hashable(e)), c.floatable(i) == B(t in ("i", "b", "f", "fi")),
                  c.iterable(i) == B(t in ("s", "t", "fs", "set", "l", "it", "d", "idd")), c.one_shot(i) == B(t == "it"),
                  c.truthy(i) == B(self._truthy(e))]
            if il:
                A.append(c.int_of(i) == int(e[1]))
                A.append(c.id_of_int(z3.IntVal(int(e[1]))) == i)
            if t in ("t", "fs", "set", "l", "it"):
                A.append(c.content(i) == self.setof(list(e[1])))
                A.append(c.elems_hashable(i) == B(all(self._hashable(x) for x in e[1])))
                A.append(c.len_of(i) == len(e[1]))
                for j, x in enumerate(e[1]):
                    if t in ("t", "l"):
                        A.append(c.sub(i, z3.IntVal(j)) == self.id[lkey(x)])
            elif t in ("d", "idd"):
                A.append(c.content(i) == self.setof([kk for kk, _ in e[1]]))
                A.append(c.akeys(i) == self.setof([kk for kk, _ in e[1]]))
                A.append(c.elems_hashable(i) == B(True))
                A.append(c.len_of(i) == len(e[1]))
                av = c.avals(i)
                for kk, vv in e[1]:
                    A.append(z3.Select(av, self.id[lkey(kk)]) == self.id[lkey(vv)])
            elif t == "s":
                A.append(c.len_of(i) == len(e[1]))
                A.append(c.content(i) == self.setof([["s", ch] for ch in e[1]]))
                A.append(c.elems_hashable(i) == B(True))
        for s in strs:
            k = lkey(["s", s])
            if k in self.id:
                A.append(c.strlit(s) == self.id[k])
        self._strs_bound = set(strs)

    def bind_strlits(self):
        """String literals mentioned by a clause after construction: bind them to their label or the spare."""
        c = self.c
        for s, t in list(c.strs.items()):
            if s in self._strs_bound:
                continue
            self._strs_bound.add(s)
            k = lkey(["s", s])
            if k in self.id:
                c.axioms.append(t == self.id[k])

    @staticmethod
    def _hashable(e):
        t = e[0]
        if t in ("l", "d", "idd", "set", "it"):
            return t == "it"
        if t in ("t", "fs"):
            return all(Concrete._hashable(x) for x in e[1])
        return True

    @staticmethod
    def _truthy(e):
        t = e[0]
        if t == "n":
            return False
        if t in ("i", "b", "f", "fi"):
            return bool(e[1])
        if t == "it" or t == "o" or t == "x":
            return True
        return len(e[1]) > 0

    def junk(self, name, sort):
        """One shared unconstrained base per sort: entries outside the key sets are equal in every
        snapshot of this interpretation (they are never compared by a well-formed clause)."""
        if not hasattr(self, "_junk"):
            self._junk = {}
        if name not in self._junk:
            self._junk[name] = z3.Const("junk_" + name, sort)
        return self._junk[name]

    def setof(self, encs):
        s = self.c.EMPTY
        for e in encs:
            s = z3.Store(s, self.id[lkey(e)], z3.BoolVal(True))
        return s

    def snap(self, st):
        c = self.c
        kind = st["kind"]
        keyset = lambda rows: self.setof([r[0] for r in rows])
        base = self.junk("ms", c.MapSet)

        def table(rows, col):
            a = base
            for r in rows:
                a = z3.Store(a, self.id[lkey(r[0])], self.setof(r[col]))
            return a

        kw = dict(nk=keyset(st["node"]), ek=keyset(st["edge"]), nak=keyset(st["node_attr"]), eak=keyset(st["edge_attr"]))
        if kind == "DH":
            kw.update(Nin=table(st["node"], 1), Nout=table(st["node"], 2), Ein=table(st["edge"], 1), Eout=table(st["edge"], 2))
        else:
            kw.update(N=table(st["node"], 1), E=table(st["edge"], 1))

        def attrtab(rows):
            h = self.junk("h", c.MapSet)
            v = self.junk("v", c.MapMapVal)
            for r in rows:
                i = self.id[lkey(r[0])]
                h = z3.Store(h, i, self.setof([k for k, _ in r[1][1]]))
                av = self.junk("av", c.MapVal)
                for k, x in r[1][1]:
                    av = z3.Store(av, self.id[lkey(k)], self.id[lkey(x)])
                v = z3.Store(v, i, av)
            return h, v

        kw["NAh"], kw["NAv"] = attrtab(st["node_attr"])
        kw["EAh"], kw["EAv"] = attrtab(st["edge_attr"])
        kw["neth"] = self.setof([k for k, _ in st["net_attr"][1]])
        nv = self.junk("av", c.MapVal)
        for k, x in st["net_attr"][1]:
            nv = z3.Store(nv, self.id[lkey(k)], self.id[lkey(x)])
        kw["netv"] = nv
        kw["uid"] = z3.IntVal(st["uid"])
        kw["frozen"] = z3.BoolVal(bool(st.get("frozen")))
        sh = Shadow(z3.BoolVal(bool(st.get("frozen"))), [])
        for nm in st.get("shadow", []):
            sh.set(nm)
        kw["shadow"] = sh
        kw["warned"] = z3.BoolVal(False)
        return Snap.from_terms(kind, **kw)


class _R:
    def __init__(self, A, snap, result, exc, warned):
        self.A, self.snap, self.result, self.exc = A, snap, result, exc
        for s in snap.values():
            s.warned = z3.BoolVal(bool(warned))

    @property
    def S(self):
        return self.snap["self"]


def evaluate(spec, case, outcome, props=None):
    """Evaluate the exit clauses of `spec` on one concrete outcome.

    Returns a list of (clause name, props, verdict) with verdict in {'true','false','unknown'}.
    """
    labels = []
    for st in list(outcome["pre"].values()) + list(outcome["post"].values()):
        net_labels(st, labels)
    for name, kind, e in case["params"]:
        if e is not None and not kind.startswith("net"):
            sublabels(e, labels)
    res = outcome.get("result")
    if res and "val" in res and res["val"][0] != "x":
        sublabels(res["val"], labels)
    if res and "net" in res:
        net_labels(res["net"], labels)
    labels.append(["n"])
    if any(l[0] == "x" for l in labels):
        return None  # an object the harness cannot encode ended up in the state: case not evaluated
    dom = [["n"]]
    for st in list(outcome["pre"].values()) + list(outcome["post"].values()) + ([res["net"]] if res and "net" in res else []):
        for row in st["node"] + st["edge"]:
            dom.append(row[0])
            for col in row[1:]:
                dom.extend(col)
        for row in st["node_attr"] + st["edge_attr"]:
            dom.append(row[0])
    for name, kind, e in case["params"]:
        if e is not None and not kind.startswith(("net", "view:")) and kind != "kwattr":
            dom.append(e)
            if e[0] in ("t", "fs", "set", "l", "it"):
                dom.extend(e[1])
                # nested members too (three levels, as deep as the set-quantifier bases below reach): a set over elements
                # outside the quantifier domain would have its subset / cardinality tests silently truncated
                for x in e[1]:
                    if x[0] in ("t", "fs", "set", "l", "it"):
                        dom.extend(x[1])
                        for y in x[1]:
                            if y[0] in ("t", "fs", "set", "l", "it"):
                                dom.extend(y[1])
            if e[0] == "d":
                dom.extend(k for k, _ in e[1])
                for _, vv in e[1]:
                    if vv[0] in ("t", "fs", "set", "l", "it"):
                        dom.extend(vv[1])
            if e[0] == "s":
                dom.extend(["s", ch] for ch in e[1])
    if res and "val" in res and res["val"][0] != "x":
        dom.append(res["val"])
    # set-valued quantifiers: every clause guards its set variable by `subset of a member set /
    # of an argument's content`, so the subsets of those (bounded in size) are a complete domain
    import itertools
    bases = []
    for st in list(outcome["pre"].values()) + list(outcome["post"].values()) + ([res["net"]] if res and "net" in res else []):
        if st["kind"] != "DH":
            for row in st["edge"]:
                bases.append([x for x in row[1]])
    for name, kind, e in case["params"]:
        if e is not None and not kind.startswith("net") and e[0] in ("t", "fs", "set", "l", "it"):
            bases.append([x for x in e[1] if Concrete._hashable(x)])
            for x in e[1]:
                if x[0] in ("t", "fs", "set", "l", "it"):
                    bases.append([y for y in x[1] if Concrete._hashable(y)])
                    for y in x[1]:
                        if y[0] in ("t", "fs", "set", "l", "it"):
                            bases.append([z for z in y[1] if Concrete._hashable(z)])
        if e is not None and not kind.startswith("net") and e[0] == "d":
            for kk, vv in e[1]:
                if vv[0] in ("t", "fs", "set", "l", "it"):
                    bases.append([y for y in vv[1] if Concrete._hashable(y)])
    # every element of a quantified set must itself be in the quantifier domain
    have = {lkey(x) for x in dom}
    for b in bases:
        for x in b:
            if lkey(x) not in have:
                have.add(lkey(x))
                dom.append(x)
    K = Concrete(labels, domain=dom)
    c = K.c
    seen, dom_sets = set(), []
    for b in bases:
        b = b[:5]
        for r in range(len(b) + 1):
            for sub in itertools.combinations(b, r):
                key = tuple(sorted(lkey(x) for x in sub))
                if key not in seen:
                    seen.add(key)
                    dom_sets.append(K.setof(list(sub)))
    if len(dom_sets) * len(c.ids) > 1500:
        return None  # too large to ground-expand within the stand-in's budget: case not evaluated
    c.set_domain = dom_sets or [c.EMPTY]
    A = Args()
    for name, kind, e in case["params"]:
        if kind.startswith(("net", "view:")):
            A.v[name] = None
            A.snap0[name] = K.snap(outcome["pre"][name])
            if kind.startswith("view:"):
                A.view_which[name] = kind.split(":")[1]
        elif kind == "bool":
            A.v[name] = VBool(bool(e[1]))
        elif kind == "int":
            A.v[name] = VInt(int(e[1]))
        elif kind == "kwattr":
            has = K.setof([k for k, _ in e[1]])
            av = K.junk("av", c.MapVal)
            for k, x in e[1]:
                av = z3.Store(av, K.id[lkey(k)], K.id[lkey(x)])
            A.v[name] = VAttr(has, av)
        elif kind == "pydict":
            from .values import VDict
            arr = K.junk("av", c.MapVal)
            for kk, vv in e[1]:
                arr = z3.Store(arr, K.id[lkey(kk)], K.id[lkey(vv)])
            A.v[name] = VDict("dict", "val", K.setof([kk for kk, _ in e[1]]), {"v": arr})
        elif kind in ("fset", "set"):
            from .values import VSet
            A.v[name] = VSet(K.setof([x for x in e[1]]), frozen=(kind == "fset"))
        else:
            A.v[name] = VVal(K.id[lkey(e)])
    post = {k: K.snap(v) for k, v in outcome["post"].items()}
    result = None
    if res and "val" in res and res["val"][0] != "x":
        rv = res["val"]
        rk = getattr(spec, "result", None)
        if rk == "bool" and rv[0] in ("b", "i"):
            result = VBool(bool(rv[1]))
        elif rk == "int" and rv[0] in ("b", "i"):
            result = VInt(int(rv[1]))
        elif rk in ("list", "set") and rv[0] in ("l", "t", "set", "fs"):
            from .values import VList, VSet
            if rk == "list":
                result = VList(None, z3.IntVal(len(rv[1])), None)
                result.content = K.setof([x for x in rv[1] if Concrete._hashable(x)])
            else:
                result = VSet(K.setof([x for x in rv[1] if Concrete._hashable(x)]))
        elif rk == "dict:int" and rv[0] == "d" and all(v[0] in ("i", "b", "fi") for _, v in rv[1]):
            from .values import VDict
            arr = K.junk("iv", z3.ArraySort(c.Id, z3.IntSort()))
            for kk, vv in rv[1]:
                arr = z3.Store(arr, K.id[lkey(kk)], z3.IntVal(int(vv[1])))
            result = VDict("dict", "int", K.setof([kk for kk, _ in rv[1]]), {"v": arr})
        elif rk == "auto":
            # accessors whose result shape depends on the arguments: decoded by the shape of the value
            from .values import VDict, VSet, VTuple
            isset = lambda x: x[0] in ("set", "fs") and all(Concrete._hashable(y) for y in x[1])
            if rv[0] == "b":
                result = VBool(bool(rv[1]))
            elif rv[0] == "i":
                result = VInt(int(rv[1]))
            elif isset(rv):
                result = VSet(K.setof(list(rv[1])))
            elif rv[0] == "t" and len(rv[1]) == 2 and all(isset(x) for x in rv[1]):
                result = VTuple([VSet(K.setof(list(x[1]))) for x in rv[1]])
            elif rv[0] == "d" and all(isset(v) for _, v in rv[1]):
                arr = K.junk("sv", c.MapSet)
                for kk, vv in rv[1]:
                    arr = z3.Store(arr, K.id[lkey(kk)], K.setof(list(vv[1])))
                result = VDict("dict", "set", K.setof([kk for kk, _ in rv[1]]), {"v": arr})
                result.fresh_values = True
            elif rv[0] == "l" and all(Concrete._hashable(x) for x in rv[1]):
                result = VVal(K.id[lkey(rv)])  # a sub-view, observed as the list of its ids
            else:
                return None
        elif isinstance(rk, str) and rk.startswith("dict:"):
            return None  # a result the harness cannot encode for this contract: case not evaluated
        else:
            result = VVal(K.id[lkey(rv)])
    if res and "net" in res:
        result = K.snap(res["net"])
    exc = outcome["exc"]
    R = _R(A, post, result, exc, outcome.get("warned"))
    out = []
    if exc is None:
        clauses = spec.ensures + spec.ensures_all
    else:
        mro = outcome.get("excmro", [exc])
        allowed = [k for k in spec.raises if k in mro]
        if not allowed and not spec.raises_any:
            out.append(("exc-class:%s" % exc, ("C05",), "false"))
        clauses = list(spec.ensures_all)
        for k in allowed:
            clauses += spec.raises[k]
    # the requires must hold on the concrete pre-state, otherwise the case says nothing
    def holds(f):
        K.bind_strlits()
        s = z3.Solver()
        s.set("rlimit", 12000000)  # deterministic budget (about 5 s), no timer thread
        s.add(c.axioms)
        s.add(z3.Not(f))
        return s.check()

    for cl in spec.requires:
        if holds(cl.fn(c, A)) != z3.unsat:
            return None
    for cl in clauses:
        if props is not None and not (set(cl.props) & set(props)):
            continue
        try:
            f = cl.fn(c, A, R)
        except Unsupported:
            continue  # the observed result has a shape this clause does not describe: not evaluated
        r = holds(f)
        out.append((cl.name, cl.props, "true" if r == z3.unsat else "false" if r == z3.sat else "unknown"))
    return out


# ---------------------------------------------------------------------------- counter-model -> case
def model_to_case(spec, model, variant=None):
    """Concrete case (JSON) from a mode-g counter-model (Exec.extract_model)."""
    ids = model["ids"]
    lab = {}
    used_ints = set()
    for i, d in ids.items():
        if d["none"]:
            lab[i] = ["n"]
        elif d["intlike"]:
            lab[i] = ["i", d["int_of"]] if d.get("is_int", True) else ["fi", d["int_of"]]
        elif d["strlit"]:
            lab[i] = ["s", d["strlit"][0]]
        elif d["is_str"]:
            lab[i] = ["s", "s" + i]
        else:
            lab[i] = None
    # second pass: composite labels (tuples / iterables) are built from the labels of their content
    def label(i, depth=0):
        if lab[i] is not None:
            return lab[i]
        d = ids[i]
        if d["iterable"] and depth < 2:
            elems = [label(j, depth + 1) for j in d["content"] if j != i]
            if not d["elems_hashable"]:
                elems.append(["l", []])
            if d["one_shot"]:
                return ["it", elems]
            if d["is_tuple"]:
                return ["t", elems]
            if d["hashable"]:
                return ["fs", [e for e in elems if e[0] not in ("l", "it")]]
            return ["l", elems]
        if d["hashable"]:
            return ["o", i]
        return ["l", [["o", i]]]
    full = {i: label(i) for i in ids}

    def netstate(S):
        st = {"kind": S["kind"], "uid": S["uid"], "frozen": S.get("frozen", False)}
        if S["kind"] == "DH":
            st["node"] = [[full[n], [full[x] for x in S["Nin"][n]], [full[x] for x in S["Nout"][n]]] for n in S["nk"]]
            st["edge"] = [[full[e], [full[x] for x in S["Ein"][e]], [full[x] for x in S["Eout"][e]]] for e in S["ek"]]
        else:
            st["node"] = [[full[n], [full[x] for x in S["N"][n]]] for n in S["nk"]]
            st["edge"] = [[full[e], [full[x] for x in S["E"][e]]] for e in S["ek"]]
        st["node_attr"] = [[full[n], ["d", []]] for n in S["nak"]]
        st["edge_attr"] = [[full[e], ["d", []]] for e in S["eak"]]
        st["net_attr"] = ["d", []]
        return st

    params = []
    state = {}
    for (name, ty, *rest) in spec.params:
        ty = (variant or {}).get(name, ty)
        a = model["args"].get(name, {})
        if ty.startswith(("net", "view:")):
            state[name] = netstate(model["entry"][name])
            params.append([name, ty, None])
        elif ty == "bool":
            params.append([name, ty, ["b", bool(a.get("bool"))]])
        elif ty == "int":
            params.append([name, ty, ["i", int(a.get("int", 0))]])
        elif ty == "kwattr":
            params.append([name, ty, ["d", [[["s", "k" + j], ["i", 1]] for j in a.get("attr", [])]]])
        else:
            params.append([name, ty, full[a["val"]]])
    return {"qual": spec.qual, "params": params, "state": state}
