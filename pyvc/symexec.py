"""Forward symbolic execution of extracted function ASTs (DESIGN 1.1-1.3).

Paths are explored by re-execution under a recorded decision prefix, so mutable symbolic objects
need no copying.  Loops are cut at their invariants, calls are replaced by callee contracts, every
statement that can raise under assumption A5 forks an exceptional path.
"""
import ast
import os
import threading
import time

import z3

from . import extract
from .spec import Snap, REGISTRY, sel
from .values import *
from .z import Ctx


class SymRaise(Exception):
    def __init__(self, cls, where=None):
        self.cls = cls
        self.where = where


class PathEnd(Exception):
    pass


class Unsupported(Exception):
    pass


class _Return(Exception):
    def __init__(self, v):
        self.v = v


class _Break(Exception):
    pass


class _Continue(Exception):
    pass


EXC_PARENTS = {
    "IDNotFound": "KeyError", "KeyError": "LookupError", "IndexError": "LookupError",
    "LookupError": "Exception", "XGIError": "XGIException", "XGIException": "Exception",
    "TypeError": "Exception", "ValueError": "Exception", "AttributeError": "Exception",
    "StopIteration": "Exception", "ZeroDivisionError": "ArithmeticError", "ArithmeticError": "Exception",
    "RuntimeError": "Exception", "NotImplementedError": "RuntimeError", "Exception": "BaseException",
    "NetworkXError": "Exception", "OverflowError": "ArithmeticError",
    "UnboundLocalError": "NameError", "NameError": "Exception", "AssertionError": "Exception",
}


def exc_isa(cls, parent):
    while cls is not None:
        if cls == parent:
            return True
        cls = EXC_PARENTS.get(cls)
    return False


class Obligation:
    __slots__ = ("name", "clause", "props", "status", "secs", "model", "where", "kind", "path", "reason", "abstracted")

    def __init__(self, name, clause, props, status, secs, where, kind, model=None, path=None, reason=None, abstracted=False):
        self.name, self.clause, self.props, self.status, self.secs = name, clause, props, status, secs
        self.where, self.kind, self.model, self.path, self.reason = where, kind, model, path, reason
        # the path went through a statement / argument / local loop that was abstracted (opaque fallback): a counter-model
        # there may not be realisable, so a refutation counts only when it replays on the real function
        self.abstracted = abstracted

    def as_dict(self):
        return dict(name=self.name, clause=self.clause, props=list(self.props), status=self.status, abstracted=self.abstracted,
                    secs=round(self.secs, 4), where=self.where, kind=self.kind, model=self.model, reason=self.reason)


class Args:
    """Entry values of the parameters + entry snapshots of network parameters."""

    def __init__(self):
        self.v = {}
        self.snap0 = {}
        self.kw0 = {}  # entry value (has, val) of **kwargs dict parameters
        self.view_which = {}  # for view receivers: 'nodes' | 'edges'

    def __getattr__(self, k):
        if k == "S0":
            return self.snap0["self"]
        try:
            return self.__dict__["v"][k]
        except KeyError:
            raise AttributeError(k)


class Res:
    def __init__(self, ex, A, nets, result=None, exc=None):
        self.A = A
        self.snap = {k: Snap(n) for k, n in nets.items()}
        self.result = result
        self.exc = exc
        self.ex = ex

    @property
    def S(self):
        return self.snap["self"]


class LoopCtx:
    def __init__(self, ex, A, nets, done, content, x, i, env, distinct):
        self.ex, self.A = ex, A
        self.outer = ex.loop_stack[-1] if ex.loop_stack else None
        self.snap = {k: Snap(n) for k, n in nets.items()}
        self.done, self.content, self.x, self.i = done, content, x, i
        self.env = env
        self.distinct = distinct

    @property
    def S(self):
        return self.snap["self"]

    def net(self, name):
        v = self.env.get(name)
        if not isinstance(v, VNet):
            raise Unsupported("loop invariant refers to %s which is not a network" % name)
        return Snap(v)

    def L(self, name):
        if name not in self.env:
            # the invariant names a local the (rewritten) function no longer has: undecided, not a crash
            raise Unsupported("loop invariant refers to local `%s`, which this function does not bind" % name)
        return self.env.get(name)


def _has_quant(f):
    stack = [f]
    seen = set()
    while stack:
        t = stack.pop()
        k = t.get_id()
        if k in seen:
            continue
        seen.add(k)
        if z3.is_quantifier(t):
            if not t.is_lambda():
                return True
            stack.append(t.body())
            continue
        stack.extend(t.children())
    return False


class _Watchdog:
    def __init__(self):
        self.lock = threading.Lock()
        self.active = False
        self.fired = False
        self.cpu_dl = self.wall_dl = self.cpu0 = self.last_fire = 0.0
        self.pid = os.getpid()
        th = threading.Thread(target=self.loop, daemon=True)
        th.start()

    def loop(self):
        ctx = z3.main_ctx()
        while True:
            time.sleep(0.004)
            with self.lock:  # test-and-interrupt is atomic w.r.t. disarm(): no interrupt can leak into a later check
                if self.active and (time.process_time() > self.cpu_dl or time.time() > self.wall_dl):
                    # z3 clears / overlooks a cancel request in some phases: keep asking (every 100 ms) until check() returns
                    if not self.fired or time.time() - self.last_fire > 1.0:
                        ctx.interrupt()
                        self.fired = True
                        self.last_fire = time.time()

    def arm(self, secs):
        with self.lock:
            self.cpu0 = time.process_time()
            self.cpu_dl = self.cpu0 + secs
            self.wall_dl = time.time() + secs * 8 + 2
            self.fired = False
            self.active = True

    def disarm(self):
        with self.lock:
            self.active = False
            return time.process_time() - self.cpu0


_WD = None
_RLLOG = os.environ.get("PYVC_RLLOG")
_RLLAST = [0]


def _watchdog():
    """One watchdog thread per process (threads do not survive fork)."""
    global _WD
    if _WD is None or _WD.pid != os.getpid():
        _WD = _Watchdog()
    return _WD


class Exec:
    def __init__(self, mode="q", k=4, timeout_ms=10000, feas_ms=400, verbose=False, feas2_ms=60):
        self.feas2_ms = feas2_ms
        self.mode = mode
        self.k = k
        self.timeout_ms = timeout_ms
        self.feas_ms = feas_ms
        self.verbose = verbose
        self.obligations = []
        self.opaque_fallback = True
        self.opaque_used = []
        self.skip = set()  # (name, clause) already refuted by a ground counter-model: not re-solved
        self.only_props = None  # restrict solving to obligations tagged with one of these properties
        self.stats = dict(paths=0, queries=0, feas=0)
        self.cpu_hard = None  # no solver attempt is started that could run past this (process CPU seconds)
        self.cpu_deadline = None  # soft limit (process CPU seconds): past it, open obligations are reported `unknown` without solving
        self.exhausted = False

    # ------------------------------------------------------------------ path machinery
    def _reset(self, prefix):
        self.c = Ctx(self.mode, self.k) if not hasattr(self, "c") or True else self.c
        self.prefix = prefix
        self.taken = []
        self.pc = []
        self.pending = []
        self.consumed = []
        self.pc_tag = {}
        self.pure = False
        self._qmemo = {}
        self._pcsat = {}
        self.trace = []
        self.path_opaque = 0
        self.loop_stack = []
        self.warned = z3.BoolVal(False)

    def emitting(self):
        return len(self.taken) >= len(self.prefix)

    RL_PER_MS = 2500  # z3 resource units per millisecond of nominal budget (measured: 1.2-2.6 M units per CPU second)

    def _solver(self, ms):
        s = z3.Solver()
        # The budget is z3's deterministic resource counter (`rlimit`), not time: the verdict of a query is then the same on an
        # idle and on a fully loaded machine, and no timer thread is involved (z3's wall-clock `timeout` was seen both to flip
        # verdicts under load and, intermittently, not to fire at all - a matching loop then ran for 30 minutes).  `ms` stays the
        # nominal unit everywhere; the watchdog below is only a distant safety net.
        s.set("rlimit", int(ms * self.RL_PER_MS))
        s._budget_ms = ms
        return s

    def zcheck(self, s):
        """solver.check() under the solver's rlimit; safety net: a per-process watchdog thread interrupts the context once
        this process has consumed 4x the nominal budget (+2 s) in CPU seconds, or 8x that in wall-clock seconds."""
        ms = getattr(s, "_budget_ms", self.timeout_ms)
        wd = _watchdog()
        wd.arm(ms / 1000.0 * 4 + 2)
        r = z3.unknown
        try:
            r = s.check()
            return r
        except z3.Z3Exception:
            return z3.unknown
        finally:
            self.last_cpu = wd.disarm()
            if _RLLOG:
                try:
                    st = s.statistics()
                    rl = [st.get_key_value(k) for k in st.keys() if k == "rlimit count"]
                    cur = rl[0] if rl else 0
                    with open(_RLLOG, "a") as f:
                        f.write("%d %.4f %d %s %s\n" % (ms, self.last_cpu, cur - _RLLAST[0], r, self.mode))
                    _RLLAST[0] = cur
                except Exception:  # noqa
                    pass

    def _check(self, extra, ground_only, ms):
        self.stats["feas"] += 1
        s = self._solver(ms)
        # path pruning is an optimisation: a tighter resource budget than for verdicts (array / lambda heavy queries tick the
        # resource counter slowly, 1 M units took 2.4 s there)
        s.set("rlimit", 600000 if ms >= 400 else 150000)
        if not ground_only:
            # E-matching only: a quantified refutation is found (or not) without the model-based
            # instantiation loop that would burn the whole budget on satisfiable path conditions
            s.set("smt.mbqi", False)
        memo = self._qmemo
        for f in self.c.axioms + self.pc + [extra]:
            if ground_only:
                k = id(f)
                q = memo.get(k)
                if q is None:
                    q = memo[k] = (_has_quant(f), f)  # f kept alive so id() stays unique
                if q[0]:
                    continue
            s.add(f)
        return self.zcheck(s)

    def decide(self, cond):
        """Path pruning: returns (can_be_true, can_be_false).

        Tier 1 uses the quantifier-free part of the path condition (decidable, fast); tier 2 uses
        everything with a short budget (a quantified refutation comes quickly or not at all).
        `unknown` keeps a path: pruning is an optimisation, never a verdict.  The path condition
        itself is assumed satisfiable (otherwise every obligation on the path is discharged anyway)."""
        nc = z3.Not(cond)
        if self.mode == "g":
            ff = self._check(nc, False, self.feas_ms) != z3.unsat
            if not ff:
                return True, False
            ft = self._check(cond, False, self.feas_ms) != z3.unsat
            return ft, ff
        if self._check(nc, True, self.feas_ms) == z3.unsat:
            return True, False
        if self._check(cond, True, self.feas_ms) == z3.unsat:
            return False, True
        if self._check(nc, False, self.feas2_ms) == z3.unsat:
            return True, False
        if self._check(cond, False, self.feas2_ms) == z3.unsat:
            return False, True
        return True, True

    def branch(self, cond):
        """Fork on a z3 Bool; returns the Python bool taken on this path."""
        if isinstance(cond, bool):
            return cond
        if self.pure:
            raise Unsupported("control flow inside a comprehension condition")
        cond = z3.simplify(cond)
        if z3.is_true(cond):
            return True
        if z3.is_false(cond):
            return False
        i = len(self.taken)
        if i < len(self.prefix):
            d = self.prefix[i]
        else:
            ft, ff = self.decide(cond)
            if ft and ff:
                self.pending.append(self.taken + [False])
                d = True
            elif ft:
                d = True
            else:
                d = False
        self.taken.append(d)
        self.pc.append(cond if d else z3.Not(cond))
        return d

    def choose(self, n):
        """n-way non-deterministic choice (no condition)."""
        i = len(self.taken)
        if i < len(self.prefix):
            d = self.prefix[i]
        else:
            for j in range(1, n):
                self.pending.append(self.taken + [j])
            d = 0
        self.taken.append(d)
        return d

    def assume(self, cond, tag=None):
        self.pc.append(cond)
        if tag is not None:
            self.pc_tag[id(cond)] = (tag, cond)

    def forget_invariants(self, keep):
        """Drop the invariant assumptions of *earlier* loops from the path condition (sound: fewer
        hypotheses).  Used at the cut of a loop whose own invariant is self-contained, so that facts
        about states that no longer exist do not slow the solver down."""
        out = []
        for f in self.pc:
            t = self.pc_tag.get(id(f))
            if t is not None and t[1] is f and t[0] != keep:
                continue
            out.append(f)
        self.pc = out

    def prove(self, name, clause, props, goal, where, kind):
        if not self.emitting():
            return
        if self.only_props is not None and kind != "vacuity" and not (set(props) & self.only_props):
            return
        if (name, clause) in self.skip:
            self.obligations.append(Obligation(name, clause, props, "refuted", 0.0, where, kind, None, list(self.taken), "refuted in mode g"))
            return
        if self.cpu_deadline is not None and time.process_time() > self.cpu_deadline:
            self.exhausted = True
            self.obligations.append(Obligation(name, clause, props, "unknown", 0.0, where, kind, None, list(self.taken),
                                               "task CPU budget exhausted before this obligation was tried", abstracted=getattr(self, "path_opaque", 0) > 0))
            return
        self.stats["queries"] += 1
        t = time.time()
        if self.mode == "q":
            # portfolio: quantified proofs are found by luck of the instantiation order (the same valid goal takes
            # 0.2 s or > 60 s depending on hash / axiom order), so instead of one long attempt: two short attempts
            # with different solver seeds, one attempt on the goal alone (valid formulas such as alpha-equal
            # counting terms need no hypotheses), then the full budget.  Only `unsat` ends the schedule early;
            # every attempt uses a subset of the same hypotheses, so this is as sound as a single call.
            T = self.timeout_ms
            schedule = [(max(T // 5, 2000), 0, True), (min(T, 4000), 0, "ground"), (max(T // 5, 2000), 11, True), (min(T, 5000), 0, False), (T, 23, True)]
        else:
            schedule = [(self.timeout_ms, 0, True)]
        r = z3.unknown
        for ms, seed, hyps in schedule:
            if self.cpu_hard is not None and time.process_time() + ms / 1000.0 * 2 > self.cpu_hard:
                # not enough of the task's CPU allowance left for this attempt (the farm would kill the task and lose everything
                # it has found): leave the obligation open
                self.exhausted = True
                break
            s = self._solver(ms)
            if seed:
                s.set("random_seed", seed)
            if hyps == "ground":
                # only the quantifier-free hypotheses (branch conditions, argument facts): enough when the goal is
                # an identity up to the path's case distinction, and immune to the instantiation lottery
                for f in self.c.axioms + self.pc:
                    q = self._qmemo.get(id(f))
                    if q is None:
                        q = self._qmemo[id(f)] = (_has_quant(f), f)
                    if not q[0]:
                        s.add(f)
            elif hyps:
                s.add(self.c.axioms)
                s.add(self.pc)
            s.add(z3.Not(goal))
            r = self.zcheck(s)
            if r == z3.unsat or (r == z3.sat and hyps is True):
                break
            if r == z3.sat:
                r = z3.unknown  # fewer hypotheses: a model says nothing
        secs = time.time() - t
        model = None
        reason = None
        if r == z3.unsat:
            status = "discharged"
            if self.mode == "g":
                # a finite universe can make the path condition itself unsatisfiable (too few ids for
                # the distinct constants on the path): such a verdict says nothing
                key = (len(self.pc), len(self.c.axioms))
                if key not in self._pcsat:
                    s2 = self._solver(self.timeout_ms)
                    s2.add(self.c.axioms)
                    s2.add(self.pc)
                    self._pcsat[key] = self.zcheck(s2)
                if self._pcsat[key] == z3.unsat:
                    status = "vacuous"
        elif r == z3.sat:
            status = "refuted"
            if self.mode == "g":
                model = self.extract_model(s.model())
        else:
            status = "unknown"
            reason = s.reason_unknown()
        self.obligations.append(Obligation(name, clause, props, status, secs, where, kind, model, list(self.taken), reason,
                                           abstracted=getattr(self, "path_opaque", 0) > 0))
        if self.verbose:
            print("   %-11s %6.2fs %s" % (status, secs, name))

    # ------------------------------------------------------------------ conversions
    def tid(self, v):
        c = self.c
        if isinstance(v, VVal):
            return v.term
        if isinstance(v, VInt):
            return c.of_int(v.term)
        if isinstance(v, VStr):
            if v.s is None:
                t = c.fresh_id("fstr")
                self.assume(c.is_str(t))
                return t
            return c.strlit(v.s)
        if isinstance(v, VBool):
            return z3.If(v.term, c.of_int(z3.IntVal(1)), c.of_int(z3.IntVal(0)))
        if isinstance(v, VTuple):
            # a tuple of values used as an id: an opaque hashable tuple-valued Val determined by its items
            f = z3.Function("tuple%d" % len(v.items), *([c.Id] * len(v.items) + [c.Id]))
            t = f(*[self.tid(i) for i in v.items])
            c.val(t)
            self.assume(z3.And(c.is_tuple(t), t != c.NONE, z3.Not(c.intlike(t)), c.len_of(t) == len(v.items)))
            for j, it in enumerate(v.items):
                self.assume(c.sub(t, z3.IntVal(j)) == self.tid(it))
            return t
        if isinstance(v, VSet) and v.frozen:
            f = z3.Function("fs_id", c.SetId, c.Id)
            t = f(v.get())
            c.val(t)
            self.assume(z3.And(c.hashable(t), c.iterable(t), z3.Not(c.one_shot(t)), c.content(t) == v.get(),
                               t != c.NONE, z3.Not(c.intlike(t)), z3.Not(c.is_str(t))))
            return t
        if isinstance(v, VFloat):
            return self.tid(v.of)
        raise Unsupported("cannot use %s as a value/id" % type(v).__name__)

    def tset(self, v):
        if isinstance(v, VSet):
            return v.get()
        if isinstance(v, VVal):
            return self.c.content(v.term)
        raise Unsupported("not a set: %s" % type(v).__name__)

    def tint(self, v):
        if isinstance(v, VInt):
            return v.term
        if isinstance(v, VVal):
            return self.c.int_of(v.term)
        if isinstance(v, VBool):
            return z3.If(v.term, 1, 0)
        raise Unsupported("not an int: %s" % type(v).__name__)

    def truth(self, v):
        """z3 Bool for Python truthiness of v."""
        c = self.c
        if isinstance(v, VBool):
            return v.term
        if isinstance(v, VInt):
            return v.term != 0
        if isinstance(v, VVal):
            c.val(v.term)
            return c.truthy(v.term)
        if isinstance(v, VSet):
            return v.get() != c.EMPTY
        if isinstance(v, VStr):
            if v.s is None:
                return z3.BoolVal(True)
            return z3.BoolVal(bool(v.s))
        if isinstance(v, VTuple):
            return z3.BoolVal(bool(v.items))
        if isinstance(v, VList):
            if v.items is not None:
                return z3.BoolVal(bool(v.items))
            return v.ln > 0
        if isinstance(v, VDict):
            return v.keys != c.EMPTY
        if isinstance(v, VAttr):
            return v.get()[0] != c.EMPTY
        if isinstance(v, (VNet,)):
            return Snap(v).nk != c.EMPTY
        if isinstance(v, (VGen, VIter, VClosure, VBuiltin, VBound, VExcClass, VCounter)):
            return z3.BoolVal(True)
        if isinstance(v, VView):
            d = v.net.f["_node" if v.which == "nodes" else "_edge"]
            return d.keys != c.EMPTY
        raise Unsupported("truthiness of %s" % type(v).__name__)

    def hashable_or_raise(self, t, where):
        """Using t as a dict key / set element raises TypeError when it is unhashable."""
        c = self.c
        if self.pure:
            return  # inside a comprehension over dict keys / set elements: hashable by construction
        if not self.branch(c.hashable(t)):
            raise SymRaise("TypeError", where)

    def key_term(self, v, where):
        if isinstance(v, VVal):
            c = self.c
            c.val(v.term)
            self.hashable_or_raise(v.term, where)
            return v.term
        if isinstance(v, (VInt, VStr, VBool)):
            return self.tid(v)
        if isinstance(v, VTuple):
            for it in v.items:
                if isinstance(it, VVal):
                    self.hashable_or_raise(it.term, where)
            return self.tid(v)
        if isinstance(v, VSet):
            if v.frozen:
                return self.tid(v)
            raise SymRaise("TypeError", where)
        if isinstance(v, (VList, VDict, VAttr)):
            raise SymRaise("TypeError", where)
        raise Unsupported("key of type %s" % type(v).__name__)

    # ------------------------------------------------------------------ fresh symbolic inputs
    def new_net(self, kind, name):
        c = self.c
        net = VNet(kind)
        fr = lambda b, s: c.fresh("%s_%s" % (name, b), s)
        if kind == "DH":
            net.f["_node"] = VDict("iddict", "rec", fr("nk", c.SetId), {"in": fr("Nin", c.MapSet), "out": fr("Nout", c.MapSet)})
            net.f["_edge"] = VDict("iddict", "rec", fr("ek", c.SetId), {"in": fr("Ein", c.MapSet), "out": fr("Eout", c.MapSet)})
        else:
            net.f["_node"] = VDict("iddict", "set", fr("nk", c.SetId), {"v": fr("N", c.MapSet)})
            net.f["_edge"] = VDict("iddict", "set", fr("ek", c.SetId), {"v": fr("E", c.MapSet)})
        net.f["_node_attr"] = VDict("iddict", "attr", fr("nak", c.SetId), {"has": fr("NAh", c.MapSet), "val": fr("NAv", c.MapMapVal)})
        net.f["_edge_attr"] = VDict("iddict", "attr", fr("eak", c.SetId), {"has": fr("EAh", c.MapSet), "val": fr("EAv", c.MapMapVal)})
        net.f["_net_attr"] = VAttr(fr("neth", c.SetId), fr("netv", c.MapVal))
        net.f["_edge_uid"] = VCounter(fr("uid", z3.IntSort()))
        net.frozen_flag = fr("frozen", z3.BoolSort())
        net.shadow = Shadow(net.frozen_flag, extract.freeze_names(kind))
        self.keys_hashable(net)
        return net

    def keys_hashable(self, net):
        """Language guarantee (trusted): every key of a dict is hashable."""
        c = self.c
        for fname in ("_node", "_edge", "_node_attr", "_edge_attr"):
            d = net.f[fname]
            self.assume(c.forall(["id"], lambda x, d=d: z3.Implies(z3.Select(d.keys, x), c.hashable(x))))

    def empty_net(self, kind):
        c = self.c
        net = VNet(kind)
        if kind == "DH":
            flds = lambda: {"in": c.fresh("j", c.MapSet), "out": c.fresh("j", c.MapSet)}
            vk = "rec"
        else:
            flds = lambda: {"v": c.fresh("j", c.MapSet)}
            vk = "set"
        net.f["_node"] = VDict("iddict", vk, c.EMPTY, flds())
        net.f["_edge"] = VDict("iddict", vk, c.EMPTY, flds())
        net.f["_node_attr"] = VDict("iddict", "attr", c.EMPTY, {"has": c.fresh("j", c.MapSet), "val": c.fresh("j", c.MapMapVal)})
        net.f["_edge_attr"] = VDict("iddict", "attr", c.EMPTY, {"has": c.fresh("j", c.MapSet), "val": c.fresh("j", c.MapMapVal)})
        net.f["_net_attr"] = VAttr(c.EMPTY, c.fresh("j", c.MapVal))
        net.f["_edge_uid"] = VCounter(z3.IntVal(0))
        net.frozen_flag = z3.BoolVal(False)
        net.shadow = Shadow(net.frozen_flag, extract.freeze_names(kind))
        return net

    def havoc_net(self, net, fields=None):
        c = self.c
        for fname in (fields or VNet.FIELDS):
            o = net.f[fname]
            if isinstance(o, VDict):
                o.keys = c.fresh("h_k", c.SetId)
                for k in list(o.fields):
                    o.fields[k] = c.fresh("h_" + k, o.fields[k].sort())
                for b in o.borrows:
                    pass  # borrows read through the table: they see the havocked entry
            elif isinstance(o, VAttr):
                o.put(c.fresh("h_ah", c.SetId), c.fresh("h_av", c.MapVal))
            elif isinstance(o, VCounter):
                o.next = c.fresh("h_uid", z3.IntSort())
        net.warned = c.fresh("h_warned", z3.BoolSort())
        self.keys_hashable(net)

    def new_param(self, name, ty):
        c = self.c
        if ty.startswith("net:"):
            return self.new_net(ty[4:], name)
        if ty.startswith("view:"):
            # the receiver of a view method: an unfiltered node / edge view of a symbolic network (`_ids is _id_dict`)
            _, which, kind = ty.split(":")
            return VView(self.new_net(kind, name), which)
        if ty == "val":
            return VVal(c.val(c.fresh(name, c.Id)))
        if ty == "str":
            t = c.val(c.fresh(name, c.Id))
            self.assume(c.is_str(t))
            return VVal(t)
        if ty == "bool":
            return VBool(c.fresh(name, z3.BoolSort()))
        if ty == "int":
            return VInt(c.fresh(name, z3.IntSort()))
        if ty == "kwattr":
            return VAttr(c.fresh(name + "_h", c.SetId), c.fresh(name + "_v", c.MapVal))
        if ty == "set":
            return VSet(c.fresh(name, c.SetId))
        if ty == "fset":
            return VSet(c.fresh(name, c.SetId), frozen=True)
        if ty == "pydict":
            # the dict base object of an IDDict: plain dict semantics (KeyError on a missing key)
            return VDict("dict", "val", c.fresh(name + "_k", c.SetId), {"v": c.fresh(name + "_v", c.MapVal)})
        raise Unsupported("param type %s" % ty)

    # ------------------------------------------------------------------ model extraction (mode g)
    def extract_model(self, m):
        out = {}
        c = self.c
        def ev(t):
            return m.eval(t, model_completion=True)
        ids = c.ids
        info = {}
        for i in ids:
            d = dict(none=z3.is_true(ev(i == c.NONE)), intlike=z3.is_true(ev(c.intlike(i))),
                     int_of=ev(c.int_of(i)).as_long(), is_str=z3.is_true(ev(c.is_str(i))), is_int=z3.is_true(ev(c.is_int(i))),
                     is_tuple=z3.is_true(ev(c.is_tuple(i))), hashable=z3.is_true(ev(c.hashable(i))),
                     iterable=z3.is_true(ev(c.iterable(i))), one_shot=z3.is_true(ev(c.one_shot(i))),
                     elems_hashable=z3.is_true(ev(c.elems_hashable(i))), truthy=z3.is_true(ev(c.truthy(i))),
                     content=[str(j) for j in ids if z3.is_true(ev(z3.Select(c.content(i), j)))],
                     strlit=[s for s, t in c.strs.items() if z3.is_true(ev(t == i))])
            info[str(i)] = d
        out["ids"] = info

        def setv(t):
            return [str(j) for j in ids if z3.is_true(ev(z3.Select(t, j)))]

        def snapv(S):
            d = dict(kind=S.kind, nk=setv(S.nk), ek=setv(S.ek), nak=setv(S.nak), eak=setv(S.eak), uid=ev(S.uid).as_long())
            if S.kind == "DH":
                d["Nin"] = {str(n): setv(sel(S.Nin, n)) for n in ids if str(n) in d["nk"]}
                d["Nout"] = {str(n): setv(sel(S.Nout, n)) for n in ids if str(n) in d["nk"]}
                d["Ein"] = {str(e): setv(sel(S.Ein, e)) for e in ids if str(e) in d["ek"]}
                d["Eout"] = {str(e): setv(sel(S.Eout, e)) for e in ids if str(e) in d["ek"]}
            else:
                d["N"] = {str(n): setv(sel(S.N, n)) for n in ids if str(n) in d["nk"]}
                d["E"] = {str(e): setv(sel(S.E, e)) for e in ids if str(e) in d["ek"]}
            d["frozen"] = z3.is_true(ev(S.frozen)) if S.frozen is not None else False
            return d

        A = self.A
        out["entry"] = {k: snapv(s) for k, s in A.snap0.items()}
        args = {}
        for k, v in A.v.items():
            if isinstance(v, VVal):
                args[k] = {"val": str(ev(v.term))}
            elif isinstance(v, VBool):
                args[k] = {"bool": z3.is_true(ev(v.term))}
            elif isinstance(v, VInt):
                args[k] = {"int": ev(v.term).as_long()}
            elif isinstance(v, VAttr):
                args[k] = {"attr": setv(v._has)}
            elif isinstance(v, (VNet, VView)):
                args[k] = {"net": k}
        out["args"] = args
        return out

    # ------------------------------------------------------------------ running a function
    def verify(self, spec, variant=None, root=None, budget=None):
        """Generate and solve the obligations of one function under its contract.

        root: explore only the subtree of paths under this decision prefix (None = all paths);
        budget: stop after this many paths and leave the unexplored prefixes in self.leftover, so a
        scheduler can hand disjoint subtrees to other processes."""
        fn = extract.function(spec.qual)
        self.spec = spec
        self.fn = fn
        self.fname = spec.qual.split("::")[1]
        self.variant = variant or {}
        self._loop_ord = {}
        work = [list(root) if root else []]
        self.leftover = []
        npaths = 0
        while work:
            if budget is not None and npaths >= budget:
                self.leftover = work
                break
            if self.cpu_deadline is not None and time.process_time() > self.cpu_deadline:
                # hand the unexplored subtrees back instead of being killed with everything found so far
                self.leftover = work
                self.exhausted = True
                break
            prefix = work.pop(0)
            self._reset(prefix)
            npaths += 1
            if npaths > 4000:
                raise Unsupported("path explosion in %s" % spec.qual)
            try:
                self._run_once(spec, fn)
            except PathEnd:
                pass
            work.extend(self.pending)
        self.stats["paths"] += npaths
        return self.obligations

    def _run_once(self, spec, fn):
        c = self.c
        A = Args()
        env = {}
        nets = {}
        for (name, ty, *_) in spec.params:
            ty = self.variant.get(name, ty)
            v = self.new_param(name, ty)
            env[name] = v
            A.v[name] = v
            if isinstance(v, VNet):
                nets[name] = v
            elif isinstance(v, VView):
                nets[name] = v.net
                A.view_which[name] = v.which
        for k, n in nets.items():
            A.snap0[k] = Snap(n)
        for k, v in A.v.items():
            if isinstance(v, VAttr):
                A.kw0[k] = v.get()
        self.A = A
        self.nets = nets
        self.env = env
        for cl in spec.requires:
            self.assume(cl.fn(c, A))
        if self.emitting() and not self.prefix:
            # vacuity guard: the precondition must be satisfiable
            # satisfiability of a quantified precondition is decided in ground mode (finite universe);
            # with quantifiers only a quick refutation attempt is made
            s = self._solver(self.timeout_ms if self.mode == "g" else 1500)
            s.add(c.axioms)
            s.add(self.pc)
            r = self.zcheck(s)
            st = "discharged" if r == z3.sat or (r == z3.unknown and self.mode == "q") else "refuted"
            if r == z3.unknown and self.mode == "q":
                st = "sat-unknown"
            self.obligations.append(Obligation("%s/vacuity:pre-sat" % self.fname, "vacuity", (), st if st != "sat-unknown" else "discharged", 0.0, "entry", "vacuity", reason=str(r)))
        result = None
        exc = None
        where = "end"
        try:
            self.exec_block(fn.body, env)
            result = VVal(c.NONE)
        except _Return as r:
            result = r.v
            where = "return"
        except SymRaise as e:
            exc = e.cls
            where = e.where or "?"
        self.check_exit(spec, A, nets, result, exc, where)

    def check_exit(self, spec, A, nets, result, exc, where):
        c = self.c
        R = Res(self, A, nets, result, exc)
        if exc is None:
            tag = "exit:return@%s" % where
            if isinstance(spec.result, str) and spec.result.startswith("net:") and not isinstance(result, VNet):
                raise Unsupported("the returned network is built by code outside the modelled subset (%s)" % type(result).__name__)
            for cl in spec.ensures + spec.ensures_all:
                self.prove("%s/%s/%s" % (self.fname, tag, cl.name), cl.name, cl.props, cl.fn(c, A, R), where, "post")
        else:
            tag = "exit:raise:%s@%s" % (exc, where)
            allowed = [k for k in spec.raises if exc_isa(exc, k)]
            if exc == "AnyException":
                allowed = []
            if not allowed and not spec.raises_any:
                if exc == "AnyException":
                    # the exception is an artefact of abstraction (an unmodelled, net-pure statement *may* raise): whether the real
                    # statement raises, and what, is not decidable here - undecided, never a refutation
                    if self.emitting() and (self.only_props is None or "C05" in self.only_props):
                        self.obligations.append(Obligation("%s/%s/exc-class" % (self.fname, tag), "exc-class", ("C05",), "unknown", 0.0, where, "exc-class",
                                                           None, list(self.taken), "an abstracted statement may raise an exception the contract does not list", abstracted=True))
                else:
                    self.prove("%s/%s/exc-class" % (self.fname, tag), "exc-class", ("C05",), z3.BoolVal(False), where, "exc-class")
            for cl in spec.ensures_all:
                self.prove("%s/%s/%s" % (self.fname, tag, cl.name), cl.name, cl.props, cl.fn(c, A, R), where, "excpost")
            for k in allowed:
                for cl in spec.raises[k]:
                    self.prove("%s/%s/%s" % (self.fname, tag, cl.name), cl.name, cl.props, cl.fn(c, A, R), where, "excpost")

    # ------------------------------------------------------------------ statements
    def exec_block(self, body, env):
        for st in body:
            self.exec_stmt(st, env)

    def where(self, node):
        return "[%s]" % extract.stmt_text(node)

    def exec_stmt(self, st, env):
        self.cur = st
        m = getattr(self, "st_" + type(st).__name__, None)
        if m is None:
            raise Unsupported("statement %s" % type(st).__name__)
        if isinstance(st, (ast.Assign, ast.AugAssign, ast.AnnAssign, ast.Expr)) and self.opaque_fallback:
            mark = (len(self.taken), len(self.pc))
            try:
                return m(st, env)
            except Unsupported as e:
                if not self.net_pure(st, env):
                    raise
                return self.opaque_stmt(st, env, str(e))
        return m(st, env)

    # ------------------------------------------------------------------ opaque local computation
    NET_WRITE_METHODS = {
        "add_node", "add_nodes_from", "remove_node", "remove_nodes_from", "add_edge", "add_edges_from", "add_weighted_edges_from",
        "remove_edge", "remove_edges_from", "add_node_to_edge", "remove_node_from_edge", "clear", "clear_edges", "double_edge_swap",
        "random_edge_shuffle", "merge_duplicate_edges", "update", "set_node_attributes", "set_edge_attributes", "freeze",
        "add_simplex", "add_simplices_from", "add_weighted_simplices_from", "remove_simplex_id", "remove_simplex_ids_from", "close",
        "_add_simplex", "_add_face", "_remove_simplex_id", "cleanup", "__setitem__",
    }

    def net_pure(self, node, env):
        """A statement / loop body is *net-pure* when it cannot write a network: no mutator call or
        store through a name bound to a network, view, table or table entry, and no next() on a
        counter.  Only such code may be abstracted to unknown local values."""
        def rooted_in_net(e):
            while isinstance(e, (ast.Attribute, ast.Subscript, ast.Call)):
                e = e.value if not isinstance(e, ast.Call) else e.func
            if isinstance(e, ast.Name):
                v = env.get(e.id)
                if isinstance(v, (VNet, VView, VDict, VCounter)):
                    return True
                if isinstance(v, (VSet, VAttr, VRec)) and v.home is not None:
                    return True
                if v is None and e.id in ("self",):
                    return True
            return False
        from .frames import MUTATING_METHODS
        for n in ast.walk(node):
            if isinstance(n, ast.Call):
                f = n.func
                if isinstance(f, ast.Attribute) and (f.attr in self.NET_WRITE_METHODS or f.attr in MUTATING_METHODS) and rooted_in_net(f.value):
                    return False
                if isinstance(f, ast.Name) and f.id == "next" and n.args and rooted_in_net(n.args[0]):
                    return False
                if isinstance(f, ast.Name) and f.id in ("update_uid_counter",):
                    return False
                # a network handed to a module-level function with a contract or unknown effect
                if isinstance(f, ast.Name) and resolve_function(f.id) is not None:
                    return False
            elif isinstance(n, (ast.Assign, ast.AugAssign, ast.Delete)):
                tg = n.targets if not isinstance(n, ast.AugAssign) else [n.target]
                for t in tg:
                    for tt in (t.elts if isinstance(t, (ast.Tuple, ast.List)) else [t]):
                        if isinstance(tt, (ast.Subscript, ast.Attribute)) and rooted_in_net(tt.value):
                            return False
                        if isinstance(tt, ast.Name) and isinstance(n, ast.AugAssign):
                            v = env.get(tt.id)
                            if isinstance(v, (VSet, VAttr, VRec)) and v.home is not None:
                                return False
        return True

    def opaque_stmt(self, st, env, why):
        """Abstract a net-pure statement the executor cannot interpret: every local object it names
        is forgotten, its targets become unknown values, and it may raise (state unchanged)."""
        c = self.c
        self.opaque_used.append("%s: %s" % (self.where(st), why))
        self.path_opaque += 1
        for n in ast.walk(st):
            if isinstance(n, ast.Name):
                v = env.get(n.id)
                if isinstance(v, (VList, VSet, VAttr)) and getattr(v, "home", None) is None:
                    self.havoc_obj(v)
                elif isinstance(v, VDict) and getattr(v, "snapshot", False):
                    pass
        tg = []
        if isinstance(st, ast.Assign):
            tg = st.targets
        elif isinstance(st, (ast.AugAssign, ast.AnnAssign)):
            tg = [st.target]
        for t in tg:
            for tt in (t.elts if isinstance(t, (ast.Tuple, ast.List)) else [t]):
                if isinstance(tt, ast.Name):
                    env[tt.id] = VVal(c.fresh_id(tt.id))
        if self.choose(2) == 1:
            raise SymRaise("AnyException", self.where(st))

    def st_Pass(self, st, env):
        pass

    def st_Import(self, st, env):
        for a in st.names:
            env[(a.asname or a.name).split(".")[0]] = VModule(a.name)

    def st_ImportFrom(self, st, env):
        for a in st.names:
            pass  # names resolve through the global resolver

    def st_Expr(self, st, env):
        self.ev(st.value, env)

    def st_Return(self, st, env):
        raise _Return(self.ev(st.value, env) if st.value is not None else VVal(self.c.NONE))

    def st_Break(self, st, env):
        raise _Break()

    def st_Continue(self, st, env):
        raise _Continue()

    def st_Assert(self, st, env):
        if not self.branch(self.truth(self.ev(st.test, env))):
            raise SymRaise("AssertionError", self.where(st))

    def st_Raise(self, st, env):
        if st.exc is None:
            raise SymRaise(self._handling, self.where(st))
        v = self.ev(st.exc, env)
        if isinstance(v, VExc):
            raise SymRaise(v.cls, self.where(st))
        if isinstance(v, VExcClass):
            raise SymRaise(v.name, self.where(st))
        raise Unsupported("raise of %s" % type(v).__name__)

    def st_If(self, st, env):
        if self.cond(st.test, env):
            self.exec_block(st.body, env)
        else:
            self.exec_block(st.orelse, env)

    def cond(self, test, env):
        """Evaluate a condition with short-circuit semantics, forking paths."""
        if isinstance(test, ast.BoolOp):
            if isinstance(test.op, ast.And):
                for v in test.values:
                    if not self.cond(v, env):
                        return False
                return True
            else:
                for v in test.values:
                    if self.cond(v, env):
                        return True
                return False
        if isinstance(test, ast.UnaryOp) and isinstance(test.op, ast.Not):
            return not self.cond(test.operand, env)
        return self.branch(self.truth(self.ev(test, env)))

    def st_Assign(self, st, env):
        v = self.ev(st.value, env)
        for t in st.targets:
            self.assign(t, v, env)

    def st_AnnAssign(self, st, env):
        if st.value is not None:
            self.assign(st.target, self.ev(st.value, env), env)

    def assign(self, t, v, env):
        if isinstance(t, ast.Name):
            env[t.id] = v
            self.note_borrow(v)
        elif isinstance(t, (ast.Tuple, ast.List)):
            items = self.unpack(v, len(t.elts))
            for tt, vv in zip(t.elts, items):
                self.assign(tt, vv, env)
        elif isinstance(t, ast.Subscript):
            obj = self.ev(t.value, env)
            key = self.ev(t.slice, env)
            self.setitem(obj, key, v, self.where(self.cur))
        elif isinstance(t, ast.Attribute):
            obj = self.ev(t.value, env)
            self.setattr(obj, t.attr, v)
        else:
            raise Unsupported("assignment target %s" % type(t).__name__)

    def note_borrow(self, v):
        if isinstance(v, (VSet, VAttr, VRec)) and v.home is not None:
            d = v.home[0]
            if v not in d.borrows:
                d.borrows.append(v)

    def unpack(self, v, n):
        c = self.c
        if isinstance(v, VTuple):
            if len(v.items) != n:
                raise SymRaise("ValueError", self.where(self.cur))
            return v.items
        if isinstance(v, VList) and v.items is not None:
            if len(v.items) != n:
                raise SymRaise("ValueError", self.where(self.cur))
            return v.items
        if isinstance(v, VVal):
            # unpacking an abstract value: TypeError when not iterable, ValueError on wrong length
            c.val(v.term)
            if not self.branch(c.iterable(v.term)):
                raise SymRaise("TypeError", self.where(self.cur))
            if not self.branch(c.len_of(v.term) == n):
                raise SymRaise("ValueError", self.where(self.cur))
            return [VVal(c.val(c.sub(v.term, z3.IntVal(j)))) for j in range(n)]
        raise Unsupported("unpack %s" % type(v).__name__)

    def setattr(self, obj, name, v):
        if isinstance(obj, VNet):
            if name in VNet.FIELDS:
                if name == "_edge_uid" and isinstance(v, VCounter):
                    obj.f[name] = v
                    return
                if name == "_net_attr" and isinstance(v, VAttr):
                    v.detach()
                    obj.f[name] = v
                    return
                if isinstance(v, VDict):
                    obj.f[name] = v
                    return
                raise Unsupported("store of %s into field %s" % (type(v).__name__, name))
            if name in ("_nodeview", "_edgeview"):
                return
            if name == "frozen":
                obj.frozen_flag = self.truth(v)
                obj.shadow.flag = obj.frozen_flag
                return
            # instance attribute (freeze installs `frozen` over method names)
            if isinstance(v, VBuiltin) and v.name == "frozen":
                obj.shadow.set(name)
                obj.inst[name] = v
                return
            raise Unsupported("attribute store %s" % name)
        raise Unsupported("attribute store on %s" % type(obj).__name__)

    def st_AugAssign(self, st, env):
        t = st.target
        if isinstance(t, ast.Name):
            cur = env.get(t.id)
            rhs = self.ev(st.value, env)
            if isinstance(cur, VSet) and not cur.frozen and isinstance(st.op, (ast.BitOr, ast.Sub, ast.BitAnd)):
                a, b = cur.get(), self.tset(rhs)
                c = self.c
                r = c.set_op("union" if isinstance(st.op, ast.BitOr) else "diff" if isinstance(st.op, ast.Sub) else "inter", a, b)
                cur.put(r)
                return
            if isinstance(cur, VList) and isinstance(st.op, ast.Add):
                self.list_extend(cur, rhs)
                return
            env[t.id] = self.binop(st.op, cur, rhs)
            return
        raise Unsupported("augmented assignment to %s" % type(t).__name__)

    def st_Delete(self, st, env):
        for t in st.targets:
            if isinstance(t, ast.Subscript):
                obj = self.ev(t.value, env)
                key = self.ev(t.slice, env)
                self.delitem(obj, key, self.where(st))
            elif isinstance(t, ast.Name):
                env.pop(t.id, None)
            else:
                raise Unsupported("del target")

    def st_Try(self, st, env):
        if st.finalbody:
            raise Unsupported("try/finally")
        try:
            self.exec_block(st.body, env)
        except SymRaise as e:
            for h in st.handlers:
                if self.handler_matches(h, e.cls, env):
                    if h.name:
                        env[h.name] = VExc(e.cls)
                    old = getattr(self, "_handling", None)
                    self._handling = e.cls
                    try:
                        self.exec_block(h.body, env)
                    finally:
                        self._handling = old
                    return
            raise
        self.exec_block(st.orelse, env)

    def handler_matches(self, h, cls, env):
        if h.type is None:
            return True
        if cls == "AnyException":
            # an exception of unknown class (raised by abstracted local code): any handler may catch it
            return self.choose(2) == 0
        types = h.type.elts if isinstance(h.type, ast.Tuple) else [h.type]
        for t in types:
            name = t.attr if isinstance(t, ast.Attribute) else t.id
            if exc_isa(cls, name):
                return True
        return False

    def st_With(self, st, env):
        for it in st.items:
            v = self.ev(it.context_expr, env)
            if it.optional_vars is not None:
                self.assign(it.optional_vars, v, env)
        self.exec_block(st.body, env)

    def st_FunctionDef(self, st, env):
        env[st.name] = VClosure(st, env)

    # ------------------------------------------------------------------ loops
    def find_loop_spec(self, node):
        h = extract.header_text(node)
        cands = [l for l in self.spec.loops if l.header == h]
        ordn = self._loop_ord_for(node)
        if len(cands) > 1:
            # several loops with the same header text: match by ordinal among them
            same = [n for n in ast.walk(self.fn) if isinstance(n, (ast.For, ast.While)) and extract.header_text(n) == h]
            same.sort(key=lambda n: (n.lineno, n.col_offset))
            idx = same.index(node)
            if idx < len(cands):
                return cands[idx], h
            return None, h
        if cands:
            return cands[0], h
        # fallback for renamed loop variables / hoisted iterables: the spec loops whose header text occurs nowhere in the
        # function are paired, in source order, with the loops of the function that carry no spec - but only when both lists
        # have the same length (otherwise the pairing would be a guess).  An invariant that then does not fit simply fails
        # to be proved (undecided), it cannot make a wrong program pass.
        loops = [n for n in ast.walk(self.fn) if isinstance(n, (ast.For, ast.While))]
        loops.sort(key=lambda n: (n.lineno, n.col_offset))
        heads = {extract.header_text(n) for n in loops}
        orphan_specs = [l for l in self.spec.loops if l.header not in heads]
        spec_heads = {l.header for l in self.spec.loops}
        orphan_loops = [n for n in loops if extract.header_text(n) not in spec_heads]
        if orphan_specs and len(orphan_specs) == len(orphan_loops) and node in orphan_loops:
            return orphan_specs[orphan_loops.index(node)], h
        return None, h

    def _loop_ord_for(self, node):
        return 0

    def objects_in(self, body_nodes, env):
        """Objects bound to names that occur in the loop body (or header): havoc candidates."""
        names = set()
        for b in body_nodes:
            for n in ast.walk(b):
                if isinstance(n, ast.Name):
                    names.add(n.id)
        return names

    def assigned_names(self, body_nodes):
        out = set()
        for b in body_nodes:
            for n in ast.walk(b):
                if isinstance(n, ast.Name) and isinstance(n.ctx, (ast.Store, ast.Del)):
                    out.add(n.id)
                elif isinstance(n, ast.ExceptHandler) and n.name:
                    out.add(n.name)
        return out

    def frame_snapshot(self, lspec, env):
        """Networks a loop contract declares unmodified: their state at the loop head."""
        if lspec is None or lspec.modifies is None:
            return None
        return {nm: Snap(v) for nm, v in env.items() if isinstance(v, VNet) and nm not in lspec.modifies}

    def frame_check(self, lname, snaps, env, h):
        from .spec import same_state
        for nm, s0 in (snaps or {}).items():
            v = env.get(nm)
            if isinstance(v, VNet):
                self.prove("%s/frame:%s" % (lname, nm), "loop-frame", tuple(sorted(self.spec.props)), same_state(self.c, s0, Snap(v)), h, "loop-step")

    def havoc_for_loop(self, node, env, lspec):
        """Forget everything the body may change: objects named in it, and its assigned locals."""
        c = self.c
        names = self.objects_in(node.body, env)
        assigned = self.assigned_names(node.body + ([node.target] if isinstance(node, ast.For) else []))
        mod = lspec.modifies if lspec is not None else None
        seen = set()
        for nm in sorted(names):
            v = env.get(nm)
            if v is None or id(v) in seen:
                continue
            seen.add(id(v))
            if mod is not None and nm not in mod:
                continue
            self.havoc_obj(v)
        for nm in sorted(assigned):
            v = env.get(nm)
            if v is None:
                env[nm] = VUndef(nm)
            else:
                env[nm] = self.havoc_value(v, nm)

    def havoc_obj(self, v):
        c = self.c
        if isinstance(v, VNet):
            self.havoc_net(v)
        elif isinstance(v, VView):
            self.havoc_net(v.net)
        elif isinstance(v, VSet) and not v.frozen:
            if v.home is None:
                v.put(c.fresh("h_s", c.SetId))
        elif isinstance(v, VList):
            v.items = None
            v.ln = c.fresh("h_len", z3.IntSort())
            self.assume(v.ln >= 0)
            v.elem = c.fresh("h_el", c.SeqId)
            v.content = c.fresh("h_lc", c.SetId)
        elif isinstance(v, VDict):
            v.keys = c.fresh("h_k", c.SetId)
            for k in list(v.fields):
                v.fields[k] = c.fresh("h_" + k, v.fields[k].sort())
        elif isinstance(v, VAttr):
            if v.home is None:
                v.put(c.fresh("h_ah", c.SetId), c.fresh("h_av", c.MapVal))
        elif isinstance(v, VIter):
            v.pos = c.fresh("h_pos", z3.IntSort())
            self.assume(v.pos >= 0)
        elif isinstance(v, VCounter):
            v.next = c.fresh("h_uid", z3.IntSort())

    def havoc_value(self, v, nm):
        """Fresh value of the same kind for a loop-assigned local."""
        c = self.c
        if isinstance(v, VVal):
            return VVal(c.val(c.fresh(nm, c.Id)))
        if isinstance(v, VInt):
            return VInt(c.fresh(nm, z3.IntSort()))
        if isinstance(v, VBool):
            return VBool(c.fresh(nm, z3.BoolSort()))
        if isinstance(v, (VSet, VList, VDict, VAttr, VNet, VIter, VCounter, VView)):
            return v  # object identity kept; contents havocked by havoc_obj if named in the body
        if isinstance(v, (VStr, VTuple, VExc, VUndef)):
            return VUndef(nm)
        return v

    def iter_source(self, v, node):
        """(content SetId, distinct?, kind, extra) of an iterable about to be looped over."""
        c = self.c
        if isinstance(v, VSet):
            return v.get(), True, "set", None
        if isinstance(v, VDict):
            return v.keys, True, "dictkeys", v
        if isinstance(v, VBound) and isinstance(v.obj, VDict):
            raise Unsupported("iteration over bound method")
        if isinstance(v, VNet):
            return v.f["_node"].keys, True, "dictkeys", v.f["_node"]
        if isinstance(v, VView):
            d = v.net.f["_node" if v.which == "nodes" else "_edge"]
            return d.keys, True, "dictkeys", d
        if isinstance(v, VVal):
            c.val(v.term)
            if not self.branch(c.iterable(v.term)):
                raise SymRaise("TypeError", self.where(node))
            return self.consume(v.term), False, "val", v
        if isinstance(v, VDictItems):
            return v.d.keys, True, "items", v
        if isinstance(v, VDictValues):
            return v.d.keys, True, "values", v
        if isinstance(v, VList) and v.items is None:
            if getattr(v, "content", None) is not None:
                return v.content, bool(getattr(v, "distinct", False)), "plain", None
            return None, False, "seq", v
        from .builtins import VValItems
        if isinstance(v, VValItems):
            return c.akeys(v.v.term), True, "valitems", v
        raise Unsupported("loop over %s" % type(v).__name__)

    def consume(self, t):
        """Content delivered by iterating Val t now; a one-shot iterable delivers nothing twice."""
        c = self.c
        before = z3.Or([t == u for u in self.consumed]) if self.consumed else z3.BoolVal(False)
        self.consumed.append(t)
        return z3.If(z3.And(c.one_shot(t), before), c.EMPTY, c.content(t))

    def bind_loop_var(self, node, kind, src, x, env):
        c = self.c
        if kind == "items":
            d = src.d
            val = self.dict_value(d, x)
            self.assign(node.target, VTuple([VVal(x), val]), env)
        elif kind == "values":
            self.assign(node.target, self.dict_value(src.d, x), env)
        elif kind == "valitems":
            self.assign(node.target, VTuple([VVal(x), VVal(c.val(z3.Select(c.avals(src.v.term), x)))]), env)
        else:
            self.assign(node.target, VVal(x), env)

    def st_For(self, node, env):
        if node.orelse:
            raise Unsupported("for/else")
        c = self.c
        if self.opaque_fallback and self.find_loop_spec(node)[0] is None and self.net_pure(node, env):
            try:
                itv = self.ev(node.iter, env)
            except Unsupported:
                return self.local_loop(node, env, extract.header_text(node))
            if not (isinstance(itv, VTuple) or (isinstance(itv, VList) and itv.items is not None)):
                return self.local_loop(node, env, extract.header_text(node))
        else:
            itv = self.ev(node.iter, env)
        # concrete spine: unroll
        if isinstance(itv, VTuple) or (isinstance(itv, VList) and itv.items is not None):
            items = itv.items
            for it in list(items):
                self.assign(node.target, it, env)
                try:
                    self.exec_block(node.body, env)
                except _Continue:
                    continue
                except _Break:
                    break
            return
        if isinstance(itv, VRange):
            return self.for_range(node, itv, env)
        lspec, h = self.find_loop_spec(node)
        if lspec is None:
            if self.opaque_fallback and self.net_pure(node, env):
                return self.local_loop(node, env, h)
            raise Unsupported("no invariant for loop `%s`" % h)
        content, distinct, kind, src = self.iter_source(itv, node)
        if kind == "seq":
            raise Unsupported("loop over abstract list")
        lname = "%s/loop[%s]" % (self.fname, h)

        head_holder = {}

        def inv(done, x=None, phase="head"):
            K = LoopCtx(self, self.A, self.nets, done, content, x, None, env, distinct)
            K.phase = phase
            K.head = head_holder.get("snap")
            return self.inv_groups(lspec.inv(c, self.A, K))

        self.prove_groups(lname + "/entry", "loop-entry", inv(c.EMPTY, None, "entry"), h)
        which = self.choose(2)
        self.havoc_for_loop(node, env, lspec)
        if getattr(lspec, "forget", False):
            self.forget_invariants(lname)
        # iterating a live table: its key set is part of the havocked state; the content we iterate is
        # the key set at loop entry only if the body does not resize it (checked at step).
        live = kind in ("dictkeys", "items", "values")
        if live:
            content = src.keys if kind == "dictkeys" else src.d.keys
        if which == 0:
            done = c.fresh("done", c.SetId)
            x = c.val(c.fresh("x", c.Id))
            self.assume(c.subset(done, content))
            self.assume(z3.Select(content, x))
            if distinct:
                self.assume(z3.Not(z3.Select(done, x)))
            if kind == "val":
                self.assume(z3.Implies(c.elems_hashable(src.term), c.hashable(x)))
            else:
                self.assume(c.hashable(x))  # elements of sets / dict keys are hashable
            self.assume_groups(inv(done, x), lname)
            self.bind_loop_var(node, kind, src, x, env)
            headK = LoopCtx(self, self.A, self.nets, done, content, x, None, env, distinct)
            head_holder["snap"] = headK.snap
            fsnap = self.frame_snapshot(lspec, env)
            self.loop_stack.append(headK)
            try:
                self.exec_block(node.body, env)
            except _Continue:
                pass
            except _Break:
                return
            finally:
                self.loop_stack.pop()
            if live:
                now = src.keys if kind == "dictkeys" else src.d.keys
                self.prove(lname + "/iter-stable", "iter-stable", tuple(sorted(self.spec.props)), now == content, h, "loop-step")
            self.frame_check(lname, fsnap, env, h)
            self.prove_groups(lname + "/step", "loop-step", inv(c.add(done, x), x, "step"), h)
            if lspec.post is not None:
                K = LoopCtx(self, self.A, self.nets, done, content, x, None, env, distinct)
                K.head = headK.snap
                self.prove_groups(lname + "/step-post", "loop-step-post", self.inv_groups(lspec.post(c, self.A, K)), h)
            raise PathEnd()
        else:
            self.assume_groups(inv(content), lname)
            return

    def list_extend(self, lst, other):
        c = self.c
        if lst.items is not None and isinstance(other, (VList, VTuple)) and other.items is not None:
            lst.items.extend(other.items)
            return
        # abstract: only the *set of elements* of the list is tracked
        if lst.items is not None:
            cont = c.EMPTY
            for it in lst.items:
                cont = c.add(cont, self.tid(it))
            lst.items = None
            lst.ln = c.fresh("len", z3.IntSort())
            lst.elem = c.fresh("el", c.SeqId)
            lst.content = cont
        if getattr(lst, "content", None) is None:
            raise Unsupported("list.extend on a list whose content is unknown")
        if isinstance(other, VVal):
            c.val(other.term)
            if not self.branch(c.iterable(other.term)):
                raise SymRaise("TypeError", self.where(self.cur))
            lst.content = c.union(lst.content, self.consume(other.term))
        elif isinstance(other, VList) and getattr(other, "content", None) is not None:
            lst.content = c.union(lst.content, other.content)
        else:
            raise Unsupported("list.extend with %s" % type(other).__name__)
        lst.ln = c.fresh("len", z3.IntSort())

    def local_loop(self, node, env, h):
        """A loop whose body cannot write a network needs no invariant: its locals are forgotten."""
        c = self.c
        self.opaque_used.append("local loop `%s`" % h)
        self.path_opaque += 1
        names = self.objects_in(node.body, env)
        for nm in sorted(names):
            v = env.get(nm)
            if isinstance(v, (VList, VSet, VAttr)) and getattr(v, "home", None) is None:
                self.havoc_obj(v)
        for nm in sorted(self.assigned_names(node.body + ([node.target] if isinstance(node, ast.For) else []))):
            env[nm] = VVal(c.fresh_id(nm))
        if self.choose(2) == 1:
            raise SymRaise("AnyException", "[%s]" % h)

    def for_range(self, node, rng, env):
        raise Unsupported("for over range")

    def st_While(self, node, env):
        if node.orelse:
            raise Unsupported("while/else")
        c = self.c
        lspec, h = self.find_loop_spec(node)
        if lspec is None:
            raise Unsupported("no invariant for loop `%s`" % h)
        lname = "%s/loop[%s]" % (self.fname, h)

        def inv():
            K = LoopCtx(self, self.A, self.nets, None, None, None, None, env, False)
            return self.inv_groups(lspec.inv(c, self.A, K))

        self.prove_groups(lname + "/entry", "loop-entry", inv(), h)
        self.havoc_for_loop(node, env, lspec)
        if getattr(lspec, "forget", False):
            self.forget_invariants(lname)
        self.assume_groups(inv(), lname)
        fsnap = self.frame_snapshot(lspec, env)
        if not self.cond(node.test, env):
            return
        self.loop_stack.append(LoopCtx(self, self.A, self.nets, None, None, None, None, env, False))
        try:
            self.exec_block(node.body, env)
        except _Continue:
            pass
        except _Break:
            return
        finally:
            self.loop_stack.pop()
        self.frame_check(lname, fsnap, env, h)
        self.prove_groups(lname + "/step", "loop-step", inv(), h)
        raise PathEnd()

    def inv_groups(self, r):
        """An invariant is a Bool (belongs to every property of the function) or a list of
        (label, props, Bool) groups; every group is assumed at the head, each is proved separately."""
        if isinstance(r, list):
            return r
        return [("inv", tuple(sorted(self.spec.props)), r)]

    def assume_groups(self, groups, tag=None):
        for label, _, f in groups:
            if not label.startswith("hint:"):
                self.assume(f, tag)

    def prove_groups(self, name, kind, groups, h):
        """Groups labelled `hint:*` are lemmas: proved first (as obligations of their own) and, when
        discharged on this path, assumed for the remaining groups."""
        hints = [g for g in groups if g[0].startswith("hint:")]
        rest = [g for g in groups if not g[0].startswith("hint:")]
        for label, props, f in hints:
            n0 = len(self.obligations)
            self.prove("%s:%s" % (name, label), "%s:%s" % (kind, label), tuple(props), f, h, kind)
            new = self.obligations[n0:]
            if not self.emitting() or (new and all(o.status == "discharged" for o in new)) or (not new and self.only_props is not None):
                self.assume(f)
        for label, props, f in rest:
            self.prove("%s:%s" % (name, label), "%s:%s" % (kind, label), tuple(props), f, h, kind)

    # ------------------------------------------------------------------ expressions
    def ev(self, e, env):
        m = getattr(self, "ev_" + type(e).__name__, None)
        if m is None:
            raise Unsupported("expression %s" % type(e).__name__)
        return m(e, env)

    def ev_Constant(self, e, env):
        v = e.value
        c = self.c
        if v is None:
            return VVal(c.NONE)
        if isinstance(v, bool):
            return VBool(v)
        if isinstance(v, int):
            return VInt(v)
        if isinstance(v, str):
            return VStr(v)
        if isinstance(v, float):
            return VOpaque("float")
        raise Unsupported("constant %r" % (v,))

    def ev_JoinedStr(self, e, env):
        return VStr(None)

    GLOBALS = {
        "set", "frozenset", "list", "tuple", "dict", "len", "next", "iter", "isinstance", "issubclass", "type",
        "warn", "deepcopy", "copy", "count", "sorted", "min", "max", "range", "zip", "float", "int", "str",
        "all", "any", "sum", "map", "frozen", "hasattr", "getattr", "enumerate", "defaultdict", "combinations",
    }
    EXC = set(EXC_PARENTS) | {"BaseException"}
    TYPE_NAMES = {"Iterable", "Hashable", "str", "dict", "tuple", "list", "set", "frozenset", "int", "float"}

    def ev_Name(self, e, env):
        n = e.id
        if n in env:
            v = env[n]
            if isinstance(v, VUndef):
                # a local first bound inside the loop body, read before this iteration bound it:
                # UnboundLocalError in the first iteration (DESIGN 1.3, loop-carried locals)
                raise SymRaise("UnboundLocalError", self.where(self.cur))
            return v
        if n in self.EXC:
            return VExcClass(n)
        if n in ("Hypergraph", "DiHypergraph", "SimplicialComplex"):
            return VClassRef(n)
        if n in ("IDDict",):
            return VFactory("iddict")
        if n in self.GLOBALS or n in self.TYPE_NAMES:
            return VBuiltin(n)
        if n == "random":
            return VModule("random")
        if n in ("np", "numpy"):
            return VModule("np")
        q = resolve_function(n)
        if q is not None:
            return VBuiltin("fn:" + q)
        raise Unsupported("unknown name %s" % n)

    def ev_Tuple(self, e, env):
        return VTuple([self.ev(x, env) for x in e.elts])

    def ev_List(self, e, env):
        return VList([self.ev(x, env) for x in e.elts])

    def ev_Set(self, e, env):
        c = self.c
        s = c.EMPTY
        for x in e.elts:
            s = c.add(s, self.key_term(self.ev(x, env), self.where(self.cur)))
        return VSet(s)

    def ev_Dict(self, e, env):
        c = self.c
        keys = [k.value if isinstance(k, ast.Constant) else None for k in e.keys]
        if keys == ["in", "out"] or keys == ["out", "in"]:
            vals = {k: self.ev(v, env) for k, v in zip(keys, e.values)}
            for v in vals.values():
                if not isinstance(v, VSet):
                    raise Unsupported("directed record of non-sets")
                if v.home is not None and not v.frozen:
                    raise Unsupported("ownership: directed record built from a borrowed set")
            r = VRec(vals["in"].get(), vals["out"].get())
            for nm, v in vals.items():
                if v.home is None and v.rec is None and not v.frozen:
                    v.rec = (r, nm)  # the local set object now is the record's field (aliasing)
            return r
        has, val = c.EMPTY, c.fresh("dv", c.MapVal)
        for k, v in zip(e.keys, e.values):
            if k is None:
                raise Unsupported("dict unpacking in display")
            kt = self.key_term(self.ev(k, env), self.where(self.cur))
            vv = self.ev(v, env)
            has = c.add(has, kt)
            val = z3.Store(val, kt, self.as_val(vv))
        return VAttr(has, val)

    def as_val(self, v):
        """Val term standing for v when stored as an attribute value (opaque when it is an object)."""
        try:
            return self.tid(v)
        except Unsupported:
            return self.c.fresh_id("obj")

    def ev_Lambda(self, e, env):
        return VClosure(e, env)

    def ev_GeneratorExp(self, e, env):
        return VGen(e, env)

    def ev_ListComp(self, e, env):
        from .comprehend import listcomp
        return listcomp(self, e, env)

    def ev_SetComp(self, e, env):
        from .comprehend import setcomp
        return setcomp(self, e, env)

    def ev_DictComp(self, e, env):
        from .comprehend import dictcomp
        return dictcomp(self, e, env)

    def ev_IfExp(self, e, env):
        if self.cond(e.test, env):
            return self.ev(e.body, env)
        return self.ev(e.orelse, env)

    def ev_BoolOp(self, e, env):
        # value semantics of and/or: result is one of the operands
        if isinstance(e.op, ast.And):
            v = None
            for x in e.values:
                v = self.ev(x, env)
                if not self.branch(self.truth(v)):
                    return v
            return v
        else:
            v = None
            for x in e.values:
                v = self.ev(x, env)
                if self.branch(self.truth(v)):
                    return v
            return v

    def ev_UnaryOp(self, e, env):
        v = self.ev(e.operand, env)
        if isinstance(e.op, ast.Not):
            return VBool(z3.Not(self.truth(v)))
        if isinstance(e.op, ast.USub):
            return VInt(-self.tint(v))
        raise Unsupported("unary op")

    def ev_BinOp(self, e, env):
        return self.binop(e.op, self.ev(e.left, env), self.ev(e.right, env))

    def binop(self, op, a, b):
        c = self.c
        if isinstance(a, VSet) and isinstance(b, VSet):
            x, y = a.get(), b.get()
            if isinstance(op, ast.BitAnd):
                return VSet(c.set_op("inter", x, y), frozen=a.frozen)
            if isinstance(op, ast.BitOr):
                return VSet(c.set_op("union", x, y), frozen=a.frozen)
            if isinstance(op, ast.Sub):
                return VSet(c.set_op("diff", x, y), frozen=a.frozen)
        if isinstance(a, (VInt, VBool)) and isinstance(b, (VInt, VBool)):
            x, y = self.tint(a), self.tint(b)
            if isinstance(op, ast.Add):
                return VInt(x + y)
            if isinstance(op, ast.Sub):
                return VInt(x - y)
            if isinstance(op, ast.Mult):
                return VInt(x * y)
        if isinstance(a, VInt) and isinstance(b, VVal) or isinstance(a, VVal) and isinstance(b, VInt):
            av = a.term if isinstance(a, VVal) else None
            bv = b.term if isinstance(b, VVal) else None
            t = av if av is not None else bv
            if self.pure:
                self.pure_needs.append((c.intlike(t), "TypeError"))
            elif not self.branch(c.intlike(t)):
                raise Unsupported("arithmetic on non-integer value")
            x, y = self.tint(a), self.tint(b)
            if isinstance(op, ast.Add):
                return VInt(x + y)
            if isinstance(op, ast.Sub):
                return VInt(x - y)
        if isinstance(a, VList) and isinstance(b, VList) and isinstance(op, ast.Add):
            if a.items is not None and b.items is not None:
                return VList(a.items + b.items)
        raise Unsupported("binary op %s on %s,%s" % (type(op).__name__, type(a).__name__, type(b).__name__))

    def ev_Compare(self, e, env):
        left = self.ev(e.left, env)
        res = None
        for op, rn in zip(e.ops, e.comparators):
            right = self.ev(rn, env)
            r = self.compare(op, left, right)
            res = r if res is None else z3.And(res, r)
            left = right
        return VBool(res)

    def is_none_term(self, v):
        if isinstance(v, VVal):
            return v.term == self.c.NONE
        return z3.BoolVal(False)

    def compare(self, op, a, b):
        c = self.c
        w = self.where(self.cur)
        if isinstance(op, (ast.Is, ast.IsNot)):
            if isinstance(b, VVal) and b.term.eq(c.NONE):
                r = self.is_none_term(a)
            elif isinstance(a, VVal) and a.term.eq(c.NONE):
                r = self.is_none_term(b)
            elif isinstance(a, VIter) and isinstance(b, VVal) and a.src.eq(b.term):
                r = c.one_shot(b.term)  # iter(x) is x exactly for iterators (one-shot iterables)
            elif isinstance(a, (VSet, VDict, VList, VAttr)) and isinstance(b, VVal):
                r = z3.BoolVal(False)
            elif isinstance(a, VVal) and isinstance(b, VBuiltin) and b.name in ("dict", "list", "set", "tuple"):
                # `dtype is dict`: identity with a builtin class, an uninterpreted predicate on the value (distinct classes exclude each other)
                r = z3.Function("is_class_" + b.name, c.Id, z3.BoolSort())(c.val(a.term))
                for other in ("dict", "list", "set", "tuple"):
                    if other != b.name:
                        self.assume(z3.Not(z3.And(r, z3.Function("is_class_" + other, c.Id, z3.BoolSort())(a.term))))
            else:
                raise Unsupported("`is` on non-None")
            return r if isinstance(op, ast.Is) else z3.Not(r)
        if isinstance(op, (ast.In, ast.NotIn)):
            r = self.contains(b, a, w)
            return r if isinstance(op, ast.In) else z3.Not(r)
        if isinstance(op, (ast.Eq, ast.NotEq)):
            r = self.equal(a, b)
            return r if isinstance(op, ast.Eq) else z3.Not(r)
        if isinstance(op, (ast.Lt, ast.LtE, ast.Gt, ast.GtE)):
            if isinstance(a, VSet) and isinstance(b, VSet):
                x, y = a.get(), b.get()
                sub = lambda p, q: c.subset(p, q)
                if isinstance(op, ast.LtE):
                    return sub(x, y)
                if isinstance(op, ast.Lt):
                    return z3.And(sub(x, y), x != y)
                if isinstance(op, ast.GtE):
                    return sub(y, x)
                return z3.And(sub(y, x), x != y)
            x, y = self.num(a, w), self.num(b, w)
            return {ast.Lt: x < y, ast.LtE: x <= y, ast.Gt: x > y, ast.GtE: x >= y}[type(op)]
        raise Unsupported("comparison %s" % type(op).__name__)

    def num(self, v, w):
        c = self.c
        if isinstance(v, (VInt, VBool)):
            return self.tint(v)
        if isinstance(v, VVal):
            # ordering comparison with a non-number raises TypeError; with a non-integral float it is
            # outside the integer model
            if not self.branch(c.floatable(v.term)):
                raise SymRaise("TypeError", w)
            if not self.branch(c.intlike(v.term)):
                raise Unsupported("ordering comparison with a non-integral number")
            return c.int_of(v.term)
        raise Unsupported("number from %s" % type(v).__name__)

    def equal(self, a, b):
        c = self.c
        if isinstance(a, VSet) and isinstance(b, VSet):
            return a.get() == b.get()
        if isinstance(a, (VInt, VBool)) and isinstance(b, (VInt, VBool)):
            return self.tint(a) == self.tint(b)
        if isinstance(a, VStr) and isinstance(b, VStr) and a.s is not None and b.s is not None:
            return z3.BoolVal(a.s == b.s)
        if isinstance(a, (VSet,)) and isinstance(b, VVal) or isinstance(b, VSet) and isinstance(a, VVal):
            s, v = (a, b) if isinstance(a, VSet) else (b, a)
            raise Unsupported("equality between set object and abstract value")
        try:
            return self.tid(a) == self.tid(b)
        except Unsupported:
            raise Unsupported("equality %s == %s" % (type(a).__name__, type(b).__name__))

    def contains(self, cont, item, w):
        c = self.c
        if isinstance(cont, (VDict, VDictKeys)):
            d = cont if isinstance(cont, VDict) else cont.d
            k = self.key_term(item, w)
            return z3.Select(d.keys, k)
        if isinstance(cont, VNet):
            # Hypergraph.__contains__: try n in self._node except TypeError: False
            if isinstance(item, VVal):
                c.val(item.term)
                return z3.And(c.hashable(item.term), z3.Select(cont.f["_node"].keys, item.term))
            return z3.Select(cont.f["_node"].keys, self.tid(item))
        if isinstance(cont, VView):
            d = cont.net.f["_node" if cont.which == "nodes" else "_edge"]
            if isinstance(item, VVal):
                c.val(item.term)
                return z3.And(c.hashable(item.term), z3.Select(d.keys, item.term))
            return z3.Select(d.keys, self.tid(item))
        if isinstance(cont, VSet):
            k = self.key_term(item, w)
            return z3.Select(cont.get(), k)
        if isinstance(cont, VAttr):
            k = self.key_term(item, w)
            return z3.Select(cont.get()[0], k)
        if isinstance(cont, VDictValues):
            d = cont.d
            if d.valkind == "set" and isinstance(item, VSet):
                t = item.get()
                return c.exists(["id"], lambda e: z3.And(z3.Select(d.keys, e), z3.Select(d.fields["v"], e) == t))
            raise Unsupported("`in values()` for %s" % d.valkind)
        if isinstance(cont, VTuple) or (isinstance(cont, VList) and cont.items is not None):
            return z3.Or([self.equal(item, x) for x in cont.items]) if cont.items else z3.BoolVal(False)
        if isinstance(cont, VVal):
            c.val(cont.term)
            if not self.branch(c.iterable(cont.term)):
                raise SymRaise("TypeError", w)
            return z3.Select(c.content(cont.term), self.tid(item))
        raise Unsupported("`in` on %s" % type(cont).__name__)

    # ------------------------------------------------------------------ attribute access
    def ev_Attribute(self, e, env):
        obj = self.ev(e.value, env)
        return self.getattr(obj, e.attr)

    VIEW_FIELDS = ("_id_dict", "_ids", "_bi_id_dict", "_id_attr", "_bi_id_attr", "_net")

    def getattr(self, obj, name):
        c = self.c
        if isinstance(obj, VNet):
            if name in VNet.FIELDS:
                return obj.f[name]
            if name in ("_node_dict_factory", "_edge_dict_factory", "_node_attr_dict_factory", "_edge_attr_dict_factory"):
                return VFactory("iddict")
            if name == "_net_attr_dict_factory":
                return VFactory("dict")
            if name in ("nodes", "_nodeview"):
                return VView(obj, "nodes")
            if name in ("edges", "_edgeview"):
                return VView(obj, "edges")
            if name == "num_nodes":
                return VInt(c.card(obj.f["_node"].keys))
            if name == "num_edges":
                return VInt(c.card(obj.f["_edge"].keys))
            if name == "__class__":
                return VClassRef(extract.KIND_CLASS[obj.kind])
            if name == "frozen":
                if not self.branch(obj.frozen_flag):
                    raise SymRaise("AttributeError", self.where(self.cur))
                return VBool(True)
            if name == "is_frozen":
                return VBool(obj.frozen_flag)
            return VBound(obj, name)
        if isinstance(obj, VView) and name == "__class__":
            return obj  # only used as `self.__class__.from_view(self, ...)`: the classmethod is reached through the view object
        if isinstance(obj, VView) and name in self.VIEW_FIELDS:
            # fields installed by IDView.__init__ (aliases of the network's tables; the whole-network view has `_ids is _id_dict`)
            own, other = ("_node", "_edge") if obj.which == "nodes" else ("_edge", "_node")
            if name in ("_id_dict", "_ids"):
                return obj.net.f[own]
            if name == "_bi_id_dict":
                return obj.net.f[other]
            if name == "_id_attr":
                return obj.net.f[own + "_attr"]
            if name == "_bi_id_attr":
                return obj.net.f[other + "_attr"]
            return obj.net
        if isinstance(obj, VModule):
            return VBuiltin(obj.name + "." + name)
        if isinstance(obj, VBuiltin) and obj.name == "dict" and name in ("__getitem__", "__setitem__", "__delitem__"):
            return VBuiltin("dict." + name)
        if isinstance(obj, (VSet, VDict, VAttr, VList, VVal, VRec, VView, VFloat, VDictKeys, VDictItems, VDictValues, VStr, VTuple, VCounter)):
            return VBound(obj, name)
        raise Unsupported("attribute %s of %s" % (name, type(obj).__name__))

    # ------------------------------------------------------------------ subscripts
    def ev_Subscript(self, e, env):
        obj = self.ev(e.value, env)
        if isinstance(e.slice, ast.Slice):
            return self.slice(obj, e.slice, env)
        key = self.ev(e.slice, env)
        return self.getitem(obj, key, self.where(self.cur))

    def slice(self, obj, sl, env):
        c = self.c
        lo = self.ev(sl.lower, env) if sl.lower is not None else None
        hi = self.ev(sl.upper, env) if sl.upper is not None else None
        if isinstance(obj, VVal):
            c.val(obj.term)
            # edge[:-1] of an abstract sequence: an abstract value determined by the source
            f = z3.Function("slice_%s_%s" % (ast.unparse(sl.lower) if sl.lower else "", ast.unparse(sl.upper) if sl.upper else ""), c.Id, c.Id)
            if not self.branch(self.subscriptable(obj.term)):
                raise SymRaise("TypeError", self.where(self.cur))
            return VVal(c.val(f(obj.term)))
        if isinstance(obj, (VTuple, VList)) and obj.items is not None:
            def idx(v):
                if v is None:
                    return None
                t = z3.simplify(self.tint(v))
                if not z3.is_int_value(t):
                    raise Unsupported("symbolic slice bound")
                return t.as_long()
            items = obj.items[idx(lo):idx(hi)]
            return VTuple(items) if isinstance(obj, VTuple) else VList(items)
        raise Unsupported("slice of %s" % type(obj).__name__)

    def subscriptable(self, t):
        f = z3.Function("subscriptable", self.c.Id, z3.BoolSort())
        return f(t)

    def dict_value(self, d, k):
        """Borrowed value object for entry k of table d (k known present)."""
        if d.valkind == "set":
            s = VSet(None)
            s.home = (d, "v", k)
            return s
        if d.valkind == "rec":
            r = VRec(None, None)
            r.home = (d, k)
            return r
        if d.valkind == "attr":
            a = VAttr(None, None)
            a.home = (d, k)
            return a
        if d.valkind == "val":
            return VVal(self.c.val(z3.Select(d.fields["v"], k)))
        if d.valkind == "int":
            return VInt(z3.Select(d.fields["v"], k))
        raise Unsupported("dict value kind %s" % d.valkind)

    def getitem(self, obj, key, w):
        c = self.c
        if isinstance(obj, VDict):
            k = self.key_term(key, w)
            if self.pure:
                self.pure_needs.append((z3.Select(obj.keys, k), "IDNotFound" if obj.kind == "iddict" else "KeyError"))
                return self.dict_value(obj, k)
            if not self.branch(z3.Select(obj.keys, k)):
                raise SymRaise("IDNotFound" if obj.kind == "iddict" else "KeyError", w)
            return self.dict_value(obj, k)
        if isinstance(obj, VRec):
            if isinstance(key, VStr) and key.s in ("in", "out"):
                return self.rec_field(obj, key.s)
            raise Unsupported("directed record subscript with non-literal key")
        if isinstance(obj, VAttr):
            k = self.key_term(key, w)
            has, val = obj.get()
            if not self.branch(z3.Select(has, k)):
                raise SymRaise("KeyError", w)
            return VVal(c.val(z3.Select(val, k)))
        if isinstance(obj, (VTuple, VList)) and obj.items is not None:
            t = z3.simplify(self.tint(key))
            if z3.is_int_value(t):
                i = t.as_long()
                if -len(obj.items) <= i < len(obj.items):
                    return obj.items[i]
                raise SymRaise("IndexError", w)
            raise Unsupported("symbolic index into concrete sequence")
        if isinstance(obj, VList) and obj.items is None and getattr(obj, "content", None) is not None and isinstance(key, (VInt, VBool)):
            # list(<set / dict / view>)[i] with a literal index: some element of the content when the list is long enough, IndexError otherwise
            # (which element is left open: the order of the list is not modelled)
            t = z3.simplify(self.tint(key))
            if z3.is_int_value(t):
                i = t.as_long()
                need = i + 1 if i >= 0 else -i
                if not self.branch(obj.ln >= need):
                    raise SymRaise("IndexError", w)
                x = c.val(c.fresh("elem", c.Id))
                self.assume(z3.Select(obj.content, x))
                return VVal(x)
        if isinstance(obj, VVal):
            c.val(obj.term)
            if not self.branch(self.subscriptable(obj.term)):
                raise SymRaise("TypeError", w)
            i = self.tint(key) if isinstance(key, (VInt, VBool)) else None
            if i is None:
                raise Unsupported("abstract subscript with non-int key")
            i = z3.simplify(i)
            inb = z3.And(i < c.len_of(obj.term), -c.len_of(obj.term) <= i)
            if not self.branch(inb):
                raise SymRaise("IndexError", w)
            return VVal(c.val(c.sub(obj.term, i)))
        if isinstance(obj, VView):
            # IDView.__getitem__: members / memberships of one id (a copy)
            return self.view_getitem(obj, key, w)
        if isinstance(obj, VNet):
            # Hypergraph.__getitem__: network attribute, XGIError when missing
            k = self.key_term(key, w)
            has, val = obj.f["_net_attr"].get()
            if not self.branch(z3.Select(has, k)):
                raise SymRaise("XGIError", w)
            return VVal(c.val(z3.Select(val, k)))
        raise Unsupported("subscript of %s" % type(obj).__name__)

    def rec_field(self, rec, name):
        return rec.field(name)

    def view_getitem(self, view, key, w):
        c = self.c
        net = view.net
        d = net.f["_node" if view.which == "nodes" else "_edge"]
        k = self.key_term(key, w)
        if not self.branch(z3.Select(d.keys, k)):
            raise SymRaise("IDNotFound", w)
        if view.which == "edges":
            # EdgeView.__getitem__ -> attribute record of the edge (IDView.__getitem__ returns attrs)
            a = VAttr(None, None)
            a.home = (net.f["_edge_attr"], k)
            return a
        a = VAttr(None, None)
        a.home = (net.f["_node_attr"], k)
        return a

    def detach_borrows(self, d, k, field=None):
        """Entry k of d is about to be rebound or deleted: live borrows of it keep the old object."""
        for b in list(d.borrows):
            if b.home is None or b.home[0] is not d:
                d.borrows.remove(b)
                continue
            bk = b.home[-1]
            if bk.eq(k):
                same = True
            else:
                same = self.branch(bk == k)
            if same:
                b.detach()
                d.borrows.remove(b)

    def setitem(self, obj, key, v, w):
        c = self.c
        if isinstance(obj, VDict):
            if obj.kind == "iddict":
                if isinstance(key, VVal):
                    if self.branch(key.term == c.NONE):
                        raise SymRaise("XGIError", w)
            k = self.key_term(key, w)
            self.detach_borrows(obj, k)
            if obj.valkind == "set":
                if not isinstance(v, VSet):
                    raise Unsupported("store of %s into a set table" % type(v).__name__)
                if v.home is not None and not v.frozen:
                    raise Unsupported("ownership: a set already owned by a table entry is stored again")
                t = v.get()
                obj.keys = c.add(obj.keys, k)
                obj.fields["v"] = z3.Store(obj.fields["v"], k, t)
                if v.rec is not None:
                    raise Unsupported("ownership: field of a directed record stored into a set table")
                if not v.frozen:
                    v.home = (obj, "v", k)
                    obj.borrows.append(v)
                return
            if obj.valkind == "rec":
                if not isinstance(v, VRec):
                    raise Unsupported("store of %s into a record table" % type(v).__name__)
                if v.home is not None:
                    raise Unsupported("ownership: record stored twice")
                obj.keys = c.add(obj.keys, k)
                obj.fields["in"] = z3.Store(obj.fields["in"], k, v._in)
                obj.fields["out"] = z3.Store(obj.fields["out"], k, v._out)
                v.home = (obj, k)
                obj.borrows.append(v)
                return
            if obj.valkind == "attr":
                if isinstance(v, VFactoryResult):
                    v = VAttr(c.EMPTY, c.fresh("av", c.MapVal))
                if not isinstance(v, VAttr):
                    raise Unsupported("store of %s into an attribute table" % type(v).__name__)
                if v.home is not None:
                    raise Unsupported("ownership: attribute record stored twice")
                has, val = v.get()
                obj.keys = c.add(obj.keys, k)
                obj.fields["has"] = z3.Store(obj.fields["has"], k, has)
                obj.fields["val"] = z3.Store(obj.fields["val"], k, val)
                v.home = (obj, k)
                obj.borrows.append(v)
                return
            if obj.valkind == "val":
                obj.keys = c.add(obj.keys, k)
                obj.fields["v"] = z3.Store(obj.fields["v"], k, self.as_val(v))
                return
        if isinstance(obj, VAttr):
            k = self.key_term(key, w)
            has, val = obj.get()
            obj.put(c.add(has, k), z3.Store(val, k, self.as_val(v)))
            return
        if isinstance(obj, VNet):
            k = self.key_term(key, w)
            a = obj.f["_net_attr"]
            has, val = a.get()
            a.put(c.add(has, k), z3.Store(val, k, self.as_val(v)))
            return
        raise Unsupported("item store on %s" % type(obj).__name__)

    def delitem(self, obj, key, w):
        c = self.c
        if isinstance(obj, VDict):
            k = self.key_term(key, w)
            if not self.branch(z3.Select(obj.keys, k)):
                raise SymRaise("IDNotFound" if obj.kind == "iddict" else "KeyError", w)
            self.detach_borrows(obj, k)
            obj.keys = c.rem(obj.keys, k)
            return
        if isinstance(obj, VAttr):
            k = self.key_term(key, w)
            has, val = obj.get()
            if not self.branch(z3.Select(has, k)):
                raise SymRaise("KeyError", w)
            obj.put(c.rem(has, k), val)
            return
        raise Unsupported("del item on %s" % type(obj).__name__)

    # ------------------------------------------------------------------ calls
    def ev_Call(self, e, env):
        f = self.ev(e.func, env)
        args = []
        for a in e.args:
            if isinstance(a, ast.Starred):
                raise Unsupported("*args in call")
            args.append(self.ev_arg(a, env))
        kw = {}
        star = None
        for k in e.keywords:
            if k.arg is None:
                star = self.ev_arg(k.value, env)
            else:
                kw[k.arg] = self.ev_arg(k.value, env)
        return self.call(f, args, kw, star, e)

    def ev_arg(self, a, env):
        """An argument expression the executor cannot interpret is abstracted to an unknown value
        when it is net-pure (it may raise; it cannot write a network)."""
        if not self.opaque_fallback or isinstance(a, (ast.Name, ast.Constant, ast.Attribute)):
            return self.ev(a, env)
        try:
            return self.ev(a, env)
        except Unsupported as ex_:
            if self.pure or not self.net_pure(a, env):
                raise
            self.opaque_used.append("argument `%s`: %s" % (extract.stmt_text(a, 40), ex_))
            self.path_opaque += 1
            if self.choose(2) == 1:
                raise SymRaise("AnyException", self.where(self.cur))
            return VVal(self.c.fresh_id("arg"))

    def call(self, f, args, kw, star, node):
        from .builtins import call_builtin, call_method
        if isinstance(f, VBuiltin):
            if f.name.startswith("fn:"):
                return self.call_contract(REGISTRY_get(f.name[3:]), None, args, kw, star, node)
            return call_builtin(self, f.name, args, kw, star, node)
        if isinstance(f, VBound):
            if isinstance(f.obj, VNet):
                return self.call_net_method(f.obj, f.name, args, kw, star, node)
            return call_method(self, f.obj, f.name, args, kw, star, node)
        if isinstance(f, VExcClass):
            return VExc(f.name)
        if isinstance(f, VFactory):
            return VFactoryResult(f.kind)
        if isinstance(f, VClassRef):
            return self.construct(f.name, args, kw, star, node)
        if isinstance(f, VClosure):
            raise Unsupported("call of local closure")
        raise Unsupported("call of %s" % type(f).__name__)

    def construct(self, cls, args, kw, star, node):
        kind = extract.CLASS_KIND[cls]
        if args or kw or star is not None:
            raise Unsupported("constructor with arguments")
        # Class() with no data: by the contract of __init__ (verified separately) an empty network
        return self.empty_net(kind)

    def call_net_method(self, net, name, args, kw, star, node):
        c = self.c
        w = self.where(self.cur)
        qual = extract.resolve_method(net.kind, name)
        if qual is None:
            raise Unsupported("method %s not found on %s" % (name, net.kind))
        # a frozen instance shadows some methods with exception.frozen (C18)
        if self.branch(net.shadow.of(name)):
            raise SymRaise("XGIError", w)
        spec = REGISTRY.get(qual)
        if spec is None:
            raise Unsupported("no contract for callee %s" % qual)
        return self.call_contract(spec, net, args, kw, star, node)

    def call_contract(self, spec, selfobj, args, kw, star, node):
        """Modular call: check the callee's precondition, havoc its frame, assume its postcondition."""
        c = self.c
        w = self.where(self.cur)
        if spec is None:
            raise Unsupported("no contract for callee")
        A = Args()
        nets = {}
        params = list(spec.params)
        pos = list(args)
        if selfobj is not None:
            pos = [selfobj] + pos
        bound = {}
        for (name, ty, *rest), v in zip(params, pos):
            bound[name] = v
        for (name, ty, *rest) in params[len(pos):]:
            if name in kw:
                bound[name] = kw[name]
            elif ty == "kwattr":
                if star is not None:
                    bound[name] = star
                else:
                    # explicit keyword arguments that are not parameters form the **attr dict
                    extra = {k: v for k, v in kw.items() if k not in [p[0] for p in params]}
                    has, val = c.EMPTY, c.fresh("kwv", c.MapVal)
                    for k, v in extra.items():
                        kt = c.strlit(k)
                        has = c.add(has, kt)
                        val = z3.Store(val, kt, self.as_val(v))
                    bound[name] = VAttr(has, val)
            elif rest:
                bound[name] = self.default_value(rest[0])
            else:
                raise Unsupported("missing argument %s for %s" % (name, spec.qual))
        for (name, ty, *rest) in params:
            v = bound[name]
            if ty.startswith("net"):
                if not isinstance(v, VNet):
                    raise Unsupported("argument %s of %s is not a network" % (name, spec.qual))
                nets[name] = v
            A.v[name] = self.coerce_arg(v, ty, spec, name)
        for k, n in nets.items():
            A.snap0[k] = Snap(n)
        for cl in spec.requires:
            self.prove("%s/call@%s/pre:%s.%s" % (self.fname, w, spec.qual.split("::")[1], cl.name), "call-pre:" + cl.name,
                       cl.props or tuple(sorted(self.spec.props)), cl.fn(c, A), w, "call-pre")
            self.assume(cl.fn(c, A))
        # frame: the callee may write the networks named in spec.modifies (default: every network argument)
        mod = spec.modifies if spec.modifies is not None else list(nets)
        for k in mod:
            self.havoc_net(nets[k])
        for nm, v in A.v.items():
            if isinstance(v, VVal) and v.term is not None:
                self.consumed.append(v.term)  # the callee may have consumed a one-shot argument
        excs = sorted(spec.raises) + (["AnyException"] if spec.raises_any else [])
        which = self.choose(1 + len(excs)) if excs else 0
        result = self.result_value(spec, A, nets)
        if which == 0:
            if getattr(spec, "effect", None):
                spec.effect(self, A, nets)
            R = Res(self, A, nets, result, None)
            for cl in spec.ensures + spec.ensures_all:
                self.assume(cl.fn(c, A, R))
            return result
        cls = excs[which - 1]
        R = Res(self, A, nets, None, cls)
        for cl in spec.ensures_all + spec.raises.get(cls, []):
            self.assume(cl.fn(c, A, R))
        raise SymRaise(cls, w)

    def default_value(self, d):
        c = self.c
        if d is None:
            return VVal(c.NONE)
        if isinstance(d, bool):
            return VBool(d)
        if isinstance(d, int):
            return VInt(d)
        if isinstance(d, str):
            return VStr(d)
        raise Unsupported("default %r" % (d,))

    def coerce_arg(self, v, ty, spec, name):
        c = self.c
        if ty.startswith("net"):
            return v
        if ty == "val" or ty == "str":
            if isinstance(v, VVal):
                return v
            if isinstance(v, (VInt, VStr, VBool, VTuple)):
                return VVal(self.tid(v))
            if isinstance(v, (VSet,)):
                # a set object handed to a callee that sees an abstract iterable of hashables
                t = c.fresh_id("setarg")
                self.assume(z3.And(c.iterable(t), z3.Not(c.one_shot(t)), c.elems_hashable(t), c.content(t) == v.get(),
                                   z3.Not(c.is_str(t)), z3.Not(c.intlike(t)), t != c.NONE, z3.Not(c.is_tuple(t)),
                                   z3.Not(c.is_dict(t)),
                                   c.hashable(t) == z3.BoolVal(bool(v.frozen))))
                return VVal(t)
            if isinstance(v, VRange):
                return self.range_val(v)
            if isinstance(v, (VBuiltin, VClassRef, VClosure, VExcClass)):
                return VVal(c.fresh_id("callable"))
            if isinstance(v, (VGen, VList, VDictKeys, VDictItems, VDictValues, VIter, VView, VDict)):
                return self.abstract_iterable(v)
            raise Unsupported("argument %s=%s for %s" % (name, type(v).__name__, spec.qual))
        if ty == "bool":
            return VBool(self.truth(v))
        if ty == "int":
            return VInt(self.tint(v))
        if ty == "kwattr":
            if isinstance(v, VAttr):
                return v
            raise Unsupported("kwattr argument of type %s" % type(v).__name__)
        if ty in ("set", "fset"):
            if isinstance(v, VSet):
                return v
            if isinstance(v, VVal):
                # a frozenset-valued Val handed where the callee's contract sees a set object
                return VSet(c.content(v.term), frozen=True)
            raise Unsupported("argument %s=%s for %s" % (name, type(v).__name__, spec.qual))
        raise Unsupported("param type %s" % ty)

    def range_val(self, r):
        """range(lo, hi): a re-iterable sequence of the ints lo..hi-1 (step 1 only)."""
        c = self.c
        t = c.fresh_id("range")
        lo, hi = r.lo, r.hi
        self.assume(z3.And(c.iterable(t), z3.Not(c.one_shot(t)), c.elems_hashable(t), t != c.NONE, z3.Not(c.intlike(t)),
                           z3.Not(c.is_str(t)), z3.Not(c.is_dict(t)), z3.Not(c.is_tuple(t)), z3.Not(c.is_list(t)),
                           c.len_of(t) == z3.If(hi > lo, hi - lo, 0),
                           c.forall(["id"], lambda x: z3.Select(c.content(t), x) == z3.And(c.is_int(x), c.int_of(x) >= lo, c.int_of(x) < hi))))
        return VVal(t)

    def abstract_iterable(self, v):
        """An executor object passed where the callee's contract sees an abstract Val.

        Element-wise meaning is given by `gen_facts` hooks registered by contracts (e.g. copy());
        by default only 'iterable' is known.
        """
        c = self.c
        t = c.fresh_id("iterarg")
        self.assume(z3.And(c.iterable(t), t != c.NONE, z3.Not(c.intlike(t)), z3.Not(c.is_str(t))))
        vv = VVal(t)
        vv.origin = v
        return vv

    def result_value(self, spec, A, nets):
        c = self.c
        r = spec.result
        if r is None:
            return VVal(c.NONE)
        if r == "val":
            return VVal(c.fresh_id("res"))
        if r == "bool":
            return VBool(c.fresh("res", z3.BoolSort()))
        if r == "int":
            return VInt(c.fresh("res", z3.IntSort()))
        if r == "set":
            return VSet(c.fresh("res", c.SetId))
        if r == "list":
            l = VList(None, c.fresh("reslen", z3.IntSort()), c.fresh("resel", c.SeqId))
            l.content = c.fresh("rescont", c.SetId)
            l.distinct = True
            return l
        if r.startswith("net:"):
            return self.new_net(r[4:], "res")
        if r.startswith("param:"):
            return A.v[r[6:]]
        raise Unsupported("result kind %s" % r)


class VDictKeys(V):
    def __init__(self, d):
        self.d = d


class VDictItems(V):
    def __init__(self, d):
        self.d = d


class VDictValues(V):
    def __init__(self, d):
        self.d = d


class VRange(V):
    def __init__(self, lo, hi, step):
        self.lo, self.hi, self.step = lo, hi, step


class VFactoryResult(V):
    def __init__(self, kind):
        self.kind = kind


_FN_INDEX = None


def resolve_function(name):
    """Bare function name -> contract key (module-level functions with a registered contract)."""
    global _FN_INDEX
    if _FN_INDEX is None or len(_FN_INDEX) != len(REGISTRY):
        _FN_INDEX = {}
        for q in REGISTRY:
            n = q.split("::")[1]
            if "." not in n:
                _FN_INDEX[n] = q
    return _FN_INDEX.get(name)


def REGISTRY_get(q):
    return REGISTRY.get(q)
