"""Symbolic values of the pyvc executor.

Immutable Python values are z3 terms wrapped in VVal / VInt / VBool / VStr.  Mutable Python
objects (sets, dicts, lists, counters, networks) are Python objects here too, so aliasing between
local names is exact by construction; table entries follow the borrow discipline of DESIGN A1.
"""
import z3


class V:
    pass


class VVal(V):
    """Any hashable-or-not Python value the executor does not own: an id, None, a user argument."""

    def __init__(self, term):
        self.term = term

    def __repr__(self):
        return "VVal(%s)" % self.term


class VInt(V):
    def __init__(self, term):
        self.term = term if isinstance(term, z3.ExprRef) else z3.IntVal(term)

    def __repr__(self):
        return "VInt(%s)" % self.term


class VBool(V):
    def __init__(self, term):
        self.term = term if isinstance(term, z3.ExprRef) else z3.BoolVal(term)

    def __repr__(self):
        return "VBool(%s)" % self.term


class VStr(V):
    """A string whose text is known (literal) or opaque (f-string: text dropped, DESIGN 1.2)."""

    def __init__(self, s=None):
        self.s = s


class VFloat(V):
    """float(x) of a Val x; only .is_integer() is modelled."""

    def __init__(self, of):
        self.of = of


class VTuple(V):
    def __init__(self, items):
        self.items = list(items)


class VExcClass(V):
    def __init__(self, name):
        self.name = name


class VExc(V):
    def __init__(self, cls):
        self.cls = cls


class VBuiltin(V):
    def __init__(self, name):
        self.name = name


class VBound(V):
    def __init__(self, obj, name):
        self.obj = obj
        self.name = name


class VModule(V):
    def __init__(self, name):
        self.name = name


class VClassRef(V):
    """Reference to one of the three network classes (for isinstance / construction)."""

    def __init__(self, name):
        self.name = name


class VFactory(V):
    """IDDict / dict used as `self._node_attr_dict_factory`."""

    def __init__(self, kind):
        self.kind = kind


class VUndef(V):
    def __init__(self, name):
        self.name = name


class VOpaque(V):
    """A value the model does not look into (external library object)."""

    def __init__(self, what):
        self.what = what


class VSet(V):
    """A Python set / frozenset object.

    Either stand-alone (self._term) or a borrow of table entry (home=(VDict, field, key term)):
    a borrow reads and writes through the table until that entry is rebound or deleted.
    """

    def __init__(self, term, frozen=False):
        self._term = term
        self.home = None
        self.rec = None  # (VRec, "in"|"out") for a field of a stand-alone directed record
        self.frozen = frozen

    def get(self):
        if self.home is not None:
            d, f, k = self.home
            return z3.Select(d.fields[f], k)
        if self.rec is not None:
            r, name = self.rec
            return r.get(name)
        return self._term

    def put(self, term):
        if self.home is not None:
            d, f, k = self.home
            d.fields[f] = z3.Store(d.fields[f], k, term)
        elif self.rec is not None:
            r, name = self.rec
            r.put(name, term)
        else:
            self._term = term

    def detach(self):
        if self.home is not None:
            self._term = self.get()
            self.home = None


class VAttr(V):
    """A dict used as attribute record (str -> value): has : SetId, val : Id -> Id."""

    def __init__(self, has, val):
        self._has = has
        self._val = val
        self.home = None  # (VDict, key term)

    def get(self):
        if self.home is not None:
            d, k = self.home
            return z3.Select(d.fields["has"], k), z3.Select(d.fields["val"], k)
        return self._has, self._val

    def put(self, has, val):
        if self.home is not None:
            d, k = self.home
            d.fields["has"] = z3.Store(d.fields["has"], k, has)
            d.fields["val"] = z3.Store(d.fields["val"], k, val)
        else:
            self._has, self._val = has, val

    def detach(self):
        if self.home is not None:
            self._has, self._val = self.get()
            self.home = None


class VRec(V):
    """A directed record {"in": set, "out": set}; stand-alone or borrowed from a table entry."""

    def __init__(self, tin, tout):
        self._in = tin
        self._out = tout
        self.home = None  # (VDict, key term)

    def field(self, name):
        s = VSet(None)
        if self.home is not None:
            d, k = self.home
            s.home = (d, name, k)
        else:
            s.rec = (self, name)
        return s

    def put(self, name, term):
        if self.home is not None:
            d, k = self.home
            d.fields[name] = z3.Store(d.fields[name], k, term)
        elif name == "in":
            self._in = term
        else:
            self._out = term

    def get(self, name):
        if self.home is not None:
            d, k = self.home
            return z3.Select(d.fields[name], k)
        return self._in if name == "in" else self._out

    def detach(self):
        if self.home is not None:
            self._in, self._out = self.get("in"), self.get("out")
            self.home = None


class VDict(V):
    """A table: IDDict or dict from ids to sets / directed records / attribute records / values.

    keys : SetId;  fields : name -> Array(Id, X)   (valkind 'set': {'v'}, 'rec': {'in','out'},
    'attr': {'has','val'}, 'val': {'v'} with X = Id)
    """

    def __init__(self, kind, valkind, keys, fields):
        self.kind = kind  # 'iddict' | 'dict'
        self.valkind = valkind
        self.keys = keys
        self.fields = dict(fields)
        self.borrows = []


class VList(V):
    """A Python list the executor owns: concrete spine of symbolic items, or abstract (seq)."""

    def __init__(self, items=None, ln=None, elem=None):
        self.items = items  # python list of V, or None when abstract
        self.ln = ln
        self.elem = elem  # Array(Int, Id) when abstract


class VCounter(V):
    def __init__(self, nxt):
        self.next = nxt  # Int term


class VIter(V):
    """iter(x) over an abstract Val iterable: position into its (unknown-order) sequence."""

    def __init__(self, src, pos):
        self.src = src  # Id term of the iterable
        self.pos = pos  # Int term
        self.started = False


class VGen(V):
    """A generator expression / comprehension closure, evaluated where it is consumed."""

    def __init__(self, node, env):
        self.node = node
        self.env = env


class VClosure(V):
    def __init__(self, node, env):
        self.node = node
        self.env = env


class VView(V):
    def __init__(self, net, which):
        self.net = net
        self.which = which  # 'nodes' | 'edges'


class VNet(V):
    """A network object: kind in {'H','DH','SC'}; fields as in DESIGN 2.1."""

    FIELDS = ("_node", "_edge", "_node_attr", "_edge_attr", "_net_attr", "_edge_uid")

    def __init__(self, kind):
        self.kind = kind
        self.f = {}
        self.inst = {}  # instance attributes installed by freeze(): name -> V
        self.frozen_flag = None  # z3 Bool: has instance attribute "frozen"
        self.shadow = None  # Shadow: which methods are shadowed by exception.frozen
        self.warned = z3.BoolVal(False)


class Shadow:
    """Which methods of an instance are shadowed by exception.frozen.

    Instance attributes are installed only by freeze() (checked syntactically, C18), all at once:
    a method name is shadowed iff the instance is frozen and freeze() of its class installs it.
    `names` is read from the AST of that freeze(); during the symbolic execution of freeze()
    itself the installed names are collected in `installed`.
    """

    def __init__(self, flag, names):
        self.flag = flag  # z3 Bool: the instance is frozen
        self.names = set(names)
        self.installed = set()

    def of(self, name):
        if name in self.installed:
            return z3.BoolVal(True)
        if name in self.names:
            return self.flag
        return z3.BoolVal(False)

    def set(self, name):
        self.installed.add(name)

    def snapshot(self):
        s = Shadow(self.flag, self.names)
        s.installed = set(self.installed)
        return s

    def any(self):
        return z3.Or(self.flag, z3.BoolVal(bool(self.installed)))
