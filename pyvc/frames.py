"""Syntactic frame inference over the real ASTs (DESIGN 1.1 back end (e), used by C08 / C17 / C18).

Modular and conservative: for one function it answers "which fields of which parameter does this
body write directly" and "which methods / functions does it call on which receiver"; transitive
facts are computed over those summaries, never by inlining bodies.
"""
import ast

from . import extract

TABLES = ("_node", "_edge", "_node_attr", "_edge_attr", "_net_attr", "_edge_uid")
STRUCT = ("_node", "_edge")
MUTATING_METHODS = {"add", "remove", "discard", "clear", "update", "pop", "popitem", "setdefault", "append", "extend",
                    "insert", "sort", "reverse", "difference_update", "intersection_update", "symmetric_difference_update",
                    "__setitem__", "__delitem__"}


def _root_field(node, aliases, borrows):
    """If expression `node` denotes (part of) table `obj._X`, return (objname, field); follows
    subscripts / attribute chains and local borrows (`e1 = self._edge[i]`)."""
    while True:
        if isinstance(node, ast.Subscript):
            node = node.value
        elif isinstance(node, ast.Attribute):
            if node.attr in TABLES and isinstance(node.value, ast.Name):
                return (aliases.get(node.value.id, node.value.id), node.attr)
            node = node.value
        elif isinstance(node, ast.Call):
            # x.copy() / set(x) etc. produce fresh objects
            return None
        elif isinstance(node, ast.Name):
            return borrows.get(node.id)
        else:
            return None


class Summary:
    def __init__(self, qual):
        self.qual = qual
        self.writes = set()  # {(objname, field)}
        self.calls = set()  # {(receiver objname | None, callee name)}
        self.passes = set()  # {(objname, callee name, arg position)}: a network handed to a function
        self.params = []


def summarize(fn, qual=""):
    """Direct writes and calls of one FunctionDef.  Flow-insensitive for aliases and borrows
    (a name ever bound to a table entry is treated as a borrow everywhere): conservative."""
    s = Summary(qual)
    s.params = [a.arg for a in fn.args.args]
    aliases = {}  # local name -> parameter name it aliases (`_H = self`)
    borrows = {}  # local name -> (objname, field) it may borrow
    changed = True
    while changed:
        changed = False
        for n in ast.walk(fn):
            tgts, val = None, None
            if isinstance(n, ast.Assign):
                tgts, val = n.targets, n.value
            elif isinstance(n, ast.For):
                tgts, val = [n.target], n.iter
            elif isinstance(n, ast.IfExp):
                continue
            if tgts is None:
                continue
            vals = [val]
            if isinstance(val, ast.IfExp):
                vals = [val.body, val.orelse]
            for v in vals:
                for t in tgts:
                    if isinstance(t, ast.Name):
                        if isinstance(v, ast.Name) and (v.id in s.params or v.id in aliases):
                            a = aliases.get(v.id, v.id)
                            if aliases.get(t.id) != a:
                                aliases[t.id] = a
                                changed = True
                        rf = _root_field(v, aliases, borrows) if not isinstance(v, ast.Name) or v.id in borrows else borrows.get(v.id)
                        if rf and isinstance(v, (ast.Subscript, ast.Attribute, ast.Name)) and borrows.get(t.id) != rf:
                            borrows[t.id] = rf
                            changed = True
    for n in ast.walk(fn):
        if isinstance(n, (ast.Assign, ast.AugAssign, ast.AnnAssign)):
            tgts = n.targets if isinstance(n, ast.Assign) else [n.target]
            for t in tgts:
                for tt in (t.elts if isinstance(t, (ast.Tuple, ast.List)) else [t]):
                    if isinstance(tt, ast.Subscript):
                        rf = _root_field(tt.value, aliases, borrows)
                        if rf:
                            s.writes.add(rf)
                    elif isinstance(tt, ast.Attribute) and isinstance(tt.value, ast.Name):
                        obj = aliases.get(tt.value.id, tt.value.id)
                        s.writes.add((obj, tt.attr))
                    elif isinstance(tt, ast.Name) and isinstance(n, ast.AugAssign) and tt.id in borrows:
                        s.writes.add(borrows[tt.id])
        elif isinstance(n, ast.Delete):
            for t in n.targets:
                if isinstance(t, ast.Subscript):
                    rf = _root_field(t.value, aliases, borrows)
                    if rf:
                        s.writes.add(rf)
        elif isinstance(n, ast.Call):
            f = n.func
            if isinstance(f, ast.Attribute):
                if f.attr in MUTATING_METHODS:
                    rf = _root_field(f.value, aliases, borrows)
                    if rf:
                        s.writes.add(rf)
                if f.attr == "__next__" or False:
                    pass
                if isinstance(f.value, ast.Name):
                    s.calls.add((aliases.get(f.value.id, f.value.id), f.attr))
                else:
                    s.calls.add((None, f.attr))
            elif isinstance(f, ast.Name):
                s.calls.add((None, f.id))
                if f.id == "next" and n.args:
                    rf = _root_field(n.args[0], aliases, borrows)
                    if rf:
                        s.writes.add(rf)
            for i, a in enumerate(n.args):
                if isinstance(a, ast.Name) and (a.id in s.params or a.id in aliases):
                    s.passes.add((aliases.get(a.id, a.id), f.attr if isinstance(f, ast.Attribute) else getattr(f, "id", "?"), i))
            for k in n.keywords:
                if isinstance(k.value, ast.Name) and (k.value.id in s.params or k.value.id in aliases):
                    s.passes.add((aliases.get(k.value.id, k.value.id), f.attr if isinstance(f, ast.Attribute) else getattr(f, "id", "?"), k.arg))
    return s


def class_summaries(kind):
    out = {}
    for name, qual in extract.public_methods(kind).items():
        out[name] = summarize(extract.function(qual), qual)
    return out


def struct_mutators(kind):
    """(direct, indirect): public methods of the class that change _node/_edge of `self`.

    direct  : the body writes a structure table itself, or through private (underscore) methods
              of self, transitively;
    indirect: writes only by calling other public methods of self that are (in)direct mutators.
    Recomputed from the ASTs on every run, so a new mutator is included automatically.
    """
    sums = class_summaries(kind)

    def own_struct(name):
        return any(o == "self" and f in STRUCT for o, f in sums[name].writes)

    def self_calls(name):
        return {c for r, c in sums[name].calls if r == "self" and c in sums}

    # private closure
    direct = {n for n in sums if own_struct(n)}
    changed = True
    while changed:
        changed = False
        for n in sums:
            if n in direct:
                continue
            if any(c.startswith("_") and not c.startswith("__") and c in direct for c in self_calls(n)):
                direct.add(n)
                changed = True
    mut = set(direct)
    changed = True
    while changed:
        changed = False
        for n in sums:
            if n in mut:
                continue
            if any(c in mut for c in self_calls(n)):
                mut.add(n)
                changed = True
    public = lambda n: not n.startswith("_")
    d = sorted(n for n in direct if public(n))
    i = sorted(n for n in mut - direct if public(n))
    return d, i
