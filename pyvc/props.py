"""Per-property extra back ends (framecheck, Lean, bounded tables) plugged into the driver."""
import json
import os
import subprocess
import collections
import time

from . import extract

ROOT = os.path.dirname(os.path.dirname(os.path.abspath(__file__)))
NATIVE_PY = "/venv/bin/python"
NET_PARAM_NAMES = ("H", "net", "S", "SC", "DH", "data", "H1", "H2")
# documented in-place (docstring / signature): the frame clause does not apply to these
C08_IN_PLACE_FUNCS = {"update_uid_counter", "empty_hypergraph", "empty_dihypergraph", "empty_simplicial_complex", "_empty_network"}
READONLY_CLASSES = ("IDView", "NodeView", "EdgeView", "DiNodeView", "DiEdgeView", "IDStat", "NodeStat", "EdgeStat",
                    "DiNodeStat", "DiEdgeStat", "MultiIDStat", "MultiNodeStat", "MultiEdgeStat", "MultiDiNodeStat", "MultiDiEdgeStat")
NET_CLASSES = {"Hypergraph": "H", "DiHypergraph": "DH", "SimplicialComplex": "SC"}
OWN_FIELD_STORES_OK = {"__init__", "__setstate__", "__getattr__"}


def obligation(name, ok, reason=None, where=None, secs=0.0, props=("C08",), clause="frame"):
    return dict(name=name, clause=clause, props=list(props), status="discharged" if ok else "refuted", secs=secs,
                where=where, kind="frame", model=None, reason=reason, external=True, backend="framecheck (syntactic, modular)")


def _soften(obs, nat):
    """Syntactic obligations are stated on the *shape* of the code (aliasing, no cache, deep-copied records, ...).  When one fails
    and the native oracle of the same property (equality / independence / liveness on real objects) finds nothing wrong, the
    code was rewritten into a shape the obligation does not recognise: undecided, not a violation."""
    if nat.get("violations"):
        return
    for o in obs:
        if o["status"] == "refuted":
            o["status"] = "unknown"
            o["reason"] = "%s [syntactic obligation not met, but the native oracle of this property finds no misbehaviour: undecided]" % (o.get("reason") or "")


def write_text_replay(pid, idx, title, doc, native_cmd=None):
    d = os.path.join(ROOT, "out", pid)
    os.makedirs(d, exist_ok=True)
    path = os.path.join(d, "replay_x%d.py" % idx)
    with open(path, "w") as f:
        f.write('"""%s"""\n' % title.replace('"""', "'''"))
        f.write("REPLAY = %r\n" % json.dumps(doc))
        if native_cmd:
            f.write("\nif __name__ == '__main__':\n    import subprocess, sys, json\n    out = subprocess.run(%r, stdout=subprocess.PIPE, cwd='/').stdout\n"
                    "    r = json.loads(out)\n    print(r['violations'])\n    sys.exit(1 if r['violations'] else 0)\n" % (native_cmd,))
    return path


def native_c08(seed, only=None):
    cmd = [NATIVE_PY, os.path.join(ROOT, "pyvc", "native_c08.py"), extract.REPO, str(seed), ",".join(only) if only else ""]
    p = subprocess.run(cmd, stdout=subprocess.PIPE, stderr=subprocess.PIPE, cwd="/", timeout=900)
    if p.returncode != 0:
        raise RuntimeError("native_c08 failed: %s" % p.stderr.decode()[-1500:])
    return json.loads(p.stdout.decode()), cmd


def c08(pid, tier, seed):
    from . import framecheck as fc
    from . import frames
    t0 = time.time()
    sums, msums, funcs, methods = fc.summarize_all(fold_in_place=True)
    pubf = fc.public_functions()
    bare = collections.Counter(q.rsplit("::", 1)[-1] for q in pubf)
    obs = []
    # (a) public functions: every module-level function exported by its module's __all__ (same-named functions of
    # different modules each get their own obligation)
    for q in pubf:
        name = q.rsplit("::", 1)[-1]
        if q not in sums or name in C08_IN_PLACE_FUNCS:
            continue
        s = sums[q]
        if bare[name] > 1:
            name = "%s.%s" % (os.path.basename(q.split("::")[0])[:-3], name)
        idxs = [i for i, p in enumerate(s.params) if p in NET_PARAM_NAMES]
        if not idxs:
            continue
        bad = [(i, s.writes[i]) for i in idxs if i in s.writes]
        obs.append(obligation("C08/frame:%s" % name, not bad, reason="; ".join("L%d %s" % w for i, ws in bad for w in ws[:3]) or None, where=s.qual))
    # (b) non-mutating public methods of the three classes, (c) every method of views / stats
    mut = {}
    for cls, kind in NET_CLASSES.items():
        d, i = frames.struct_mutators(kind)
        mut[cls] = set(d) | set(i) | {"set_node_attributes", "set_edge_attributes", "freeze", "__setitem__", "__setstate__", "__init__"}
    for q in sorted(msums):
        cls, m = q.split(".", 1)
        s = msums[q]
        if cls in NET_CLASSES:
            inherited_mut = set().union(*mut.values())
            if m in mut[cls] or m in inherited_mut or (m.startswith("_") and not m.startswith("__")):
                continue
            bad = s.writes.get(0, [])
            obs.append(obligation("C08/frame:%s" % q, not bad, reason="; ".join("L%d %s" % w for w in bad[:3]) or None, where=s.qual))
        elif cls in READONLY_CLASSES:
            bad = [w for w in s.writes.get(0, []) if not (m in OWN_FIELD_STORES_OK and "attribute store" in w[1])]
            obs.append(obligation("C08/frame:%s" % q, not bad, reason="; ".join("L%d %s" % w for w in bad[:3]) or None, where=s.qual))
            if m in fc.FRESH_METHODS:
                ok = 0 not in s.returns
                obs.append(obligation("C08/fresh-result:%s" % q, ok, clause="fresh-result", where=s.qual,
                                      reason=None if ok else "the result may share a mutable object with the network (callers treat it as a copy)"))
    # bounded stand-in
    nat, cmd = native_c08(seed)
    violations = []
    k = 0
    refuted = [o for o in obs if o["status"] == "refuted"]
    nat_by_fn = {}
    for v in nat["violations"]:
        nat_by_fn.setdefault(v["function"], []).append(v)
    for o in refuted:
        fn = o["name"].split(":", 1)[1]
        k += 1
        hit = nat_by_fn.get(fn) or nat_by_fn.get(fn.split(".")[-1])
        doc = dict(property=pid, obligation=o["name"], reason=o["reason"], where=o["where"], native=hit)
        path = write_text_replay(pid, k, "C08 frame obligation refuted: %s\n%s" % (o["name"], o["reason"]), doc,
                                 [NATIVE_PY, os.path.join(ROOT, "pyvc", "native_c08.py"), extract.REPO, str(seed), fn.split(".")[-1]])
        violations.append(dict(obligation=o, path=path, reproduced=bool(hit), case={"function": fn, "native": hit}))
    for fn, hits in nat_by_fn.items():
        if any(o["name"].split(":", 1)[1] in (fn, ) or o["name"].endswith("." + fn) for o in refuted):
            continue
        k += 1
        o = obligation("C08/bounded:%s" % fn, False, reason="snapshot differs after the call: %s" % hits[0]["diff"], clause="bounded")
        path = write_text_replay(pid, k, "C08 bounded stand-in: %s mutates its argument" % fn, dict(property=pid, native=hits),
                                 [NATIVE_PY, os.path.join(ROOT, "pyvc", "native_c08.py"), extract.REPO, str(seed), fn])
        violations.append(dict(obligation=o, path=path, reproduced=True, case={"function": fn, "native": hits}))
    return dict(
        obligations=obs, violations=violations,
        bounded=[dict(function="every public callable whose first parameter is a network (%d called successfully) + view accessors" % nat["functions_called"],
                      bound="5 small networks (H mixed/str/small, SC, DH) x default arguments guessed by parameter name, seed %d" % seed,
                      cases=nat["calls"], violations=len(nat["violations"]), kind="bounded stand-in: deep snapshot before/after on the real function",
                      skipped=nat["skipped"])],
        trusted=["framecheck alias/borrow analysis (pyvc/framecheck.py): flow-sensitive rebinding, flag folding, callee summaries",
                 "external libraries (numpy, scipy, networkx, pandas, matplotlib, json) do not mutate Python containers passed to them",
                 "methods listed in framecheck.FRESH_METHODS that are not defined in xgi (dict/set/ndarray methods) return fresh objects"],
        assumptions=["network parameters are recognised by name: %s" % ", ".join(NET_PARAM_NAMES),
                     "documented in-place callables excluded: %s and the mutating methods of the three classes" % ", ".join(sorted(C08_IN_PLACE_FUNCS)),
                     "functions with an in_place flag are checked on the in_place=False path (flag constant-folded)"],
    )


EXTRA = {"C08": c08}


def c17(pid, tier, seed):
    from . import rngcheck
    obs = []
    res = rngcheck.analyse()
    for r in res:
        o = obligation("C17/rng-frame:%s" % r["function"], not r["problems"], reason="; ".join(r["problems"]) or None,
                       where=r["where"], props=("C17",), clause="rng-frame")
        o["backend"] = "rngcheck (syntactic effect frame on the global generators, modular)"
        obs.append(o)
    cmd = [NATIVE_PY, os.path.join(ROOT, "pyvc", "native_c17.py"), extract.REPO, str(seed)]
    p = subprocess.run(cmd, stdout=subprocess.PIPE, stderr=subprocess.PIPE, cwd="/", timeout=1200)
    if p.returncode != 0:
        raise RuntimeError("native_c17 failed: %s" % p.stderr.decode()[-1500:])
    nat = json.loads(p.stdout.decode())
    by = {}
    for v in nat["violations"]:
        by.setdefault(v["function"], []).append(v)
    violations = []
    k = 0
    refuted = [o for o in obs if o["status"] == "refuted"]
    for o in refuted:
        fn = o["name"].split(":", 1)[1]
        k += 1
        hit = by.get(fn)
        path = write_text_replay(pid, k, "C17 rng-frame obligation refuted: %s\n%s" % (o["name"], o["reason"]),
                                 dict(property=pid, obligation=o["name"], reason=o["reason"], native=hit), cmd + [fn])
        violations.append(dict(obligation=o, path=path, reproduced=bool(hit), case={"function": fn, "native": hit}))
    for fn, hits in by.items():
        if any(o["name"].endswith(":" + fn) for o in refuted):
            continue
        k += 1
        o = obligation("C17/bounded:%s" % fn, False, reason="two calls with the same seed differ: %s" % hits[0], props=("C17",), clause="bounded")
        path = write_text_replay(pid, k, "C17 bounded stand-in: %s is not determined by its seed" % fn, dict(property=pid, native=hits), cmd + [fn])
        violations.append(dict(obligation=o, path=path, reproduced=True, case={"function": fn, "native": hits}))
    return dict(
        obligations=obs, violations=violations,
        bounded=[dict(function="%d seeded functions" % nat["functions"], bound="fixed small argument grid x seeds {s, s+1, 7}, globals disturbed and the function re-run with another seed in between",
                      cases=nat["calls"], violations=len(nat["violations"]), kind="bounded stand-in: native double run", errors=nat["errors"])],
        trusted=["a generator seeded with s produces a sequence that is a function of s (random, numpy.random, default_rng)",
                 "networkx functions given seed=s, and scipy eigsh given v0, are deterministic in their arguments",
                 "iteration order of sets/dicts is a function of their construction history within one process",
                 "rngcheck call classification (pyvc/rngcheck.py): random.*, np.random.*, default_rng, EXT_TAKES_SEED, EXT_HIDDEN tables"],
        assumptions=["determinism is claimed only for seed is not None (the functions seed under `if seed is not None`)",
                     "effect signatures of external calls are assumed (EXT_HIDDEN: eigsh/eigs/svds draw a start vector unless v0 is given)"],
    )


EXTRA["C17"] = c17


def c06(pid, tier, seed):
    """Liveness obligations (alias / no-rebind / no-cache), discharged syntactically on the ASTs,
    plus the native oracle for formats, filters and set functions (bounded)."""
    import ast
    from . import framecheck as fc
    obs = []

    def ob(name, ok, reason=None, where=None):
        o = obligation("C06/%s" % name, ok, reason=reason, where=where, props=("C06",), clause="liveness")
        o["backend"] = "syntactic liveness check on the AST"
        obs.append(o)

    views = extract.module("xgi/core/views.py")
    init = views.funcs.get("IDView.__init__")
    tables = {"_id_dict", "_id_attr", "_bi_id_dict", "_bi_id_attr"}
    ok_alias, why = True, []
    seen = set()
    if init is None:
        ok_alias, why = False, ["IDView.__init__ not found"]
    else:
        for n in ast.walk(init):
            if isinstance(n, ast.Assign) and len(n.targets) == 1 and isinstance(n.targets[0], ast.Attribute) and n.targets[0].attr in tables:
                seen.add(n.targets[0].attr)
                v = n.value
                good = (isinstance(v, ast.IfExp) and isinstance(v.orelse, ast.Attribute) and isinstance(v.orelse.value, ast.Name)
                        and v.orelse.value.id == "network" and v.orelse.attr in ("_node", "_edge", "_node_attr", "_edge_attr"))
                if not good:
                    ok_alias = False
                    why.append("L%d %s is not bound to the network's own table" % (n.lineno, n.targets[0].attr))
        if seen != tables:
            ok_alias = False
            why.append("tables not bound: %s" % sorted(tables - seen))
        ids_alias = any(isinstance(n, ast.Assign) and isinstance(n.targets[0], ast.Attribute) and n.targets[0].attr == "_ids"
                        and isinstance(n.value, ast.Attribute) and n.value.attr == "_id_dict" for n in ast.walk(init))
        if not ids_alias:
            ok_alias = False
            why.append("a full view's _ids is not the table itself")
    ob("alias:IDView.__init__", ok_alias, "; ".join(why) or None, "xgi/core/views.py::IDView.__init__")

    # no-rebind: the four incidence/attribute tables are assigned only in __init__/__setstate__
    bad = []
    for rel in fc.package_modules():
        m = extract.module(rel)
        for q, fn in m.funcs.items():
            short = q.split(".")[-1]
            for n in ast.walk(fn):
                if isinstance(n, (ast.Assign, ast.AugAssign)):
                    tg = n.targets if isinstance(n, ast.Assign) else [n.target]
                    for t in tg:
                        for tt in (t.elts if isinstance(t, ast.Tuple) else [t]):
                            if isinstance(tt, ast.Attribute) and tt.attr in ("_node", "_edge", "_node_attr", "_edge_attr") and short not in ("__init__", "__setstate__"):
                                bad.append("%s::%s L%d rebinds .%s" % (rel, q, n.lineno, tt.attr))
    ob("no-rebind:tables", not bad, "; ".join(bad[:5]) or None, "xgi/**")

    # no caching of statistic values
    stats = extract.module("xgi/stats/__init__.py")
    bad = []
    for mod in (stats, views):
        for q, fn in mod.funcs.items():
            for d in fn.decorator_list:
                name = d.attr if isinstance(d, ast.Attribute) else d.id if isinstance(d, ast.Name) else (d.func.attr if isinstance(d, ast.Call) and isinstance(d.func, ast.Attribute) else getattr(getattr(d, "func", None), "id", ""))
                if name in ("cache", "lru_cache", "cached_property"):
                    bad.append("%s::%s is decorated with %s" % (mod.rel, q, name))
    for q, fn in stats.funcs.items():
        if "." in q and q.split(".")[0] in ("IDStat", "MultiIDStat") and not q.endswith("__init__"):
            for n in ast.walk(fn):
                if isinstance(n, ast.Assign):
                    for t in n.targets:
                        if isinstance(t, ast.Attribute) and isinstance(t.value, ast.Name) and t.value.id == "self":
                            bad.append("%s L%d stores self.%s outside __init__" % (q, n.lineno, t.attr))
    ob("no-cache:stats", not bad, "; ".join(bad[:5]) or None, "xgi/stats/__init__.py")
    val = stats.funcs.get("IDStat._val")
    okv = bool(val) and stats.props.get("IDStat._val") and any(
        isinstance(n, ast.Call) and isinstance(n.func, ast.Attribute) and n.func.attr == "func" for n in ast.walk(val))
    ob("recompute:IDStat._val", bool(okv), None if okv else "IDStat._val is not a property that calls self.func on the current network", "xgi/stats/__init__.py::IDStat._val")

    cmd = [NATIVE_PY, os.path.join(ROOT, "pyvc", "native_c06.py"), extract.REPO, str(seed)]
    p = subprocess.run(cmd, stdout=subprocess.PIPE, stderr=subprocess.PIPE, cwd="/", timeout=900)
    violations = []
    if p.returncode != 0:
        nat = {"checks": 0, "violations": [{"what": "native oracle crashed", "net": "-", "detail": p.stderr.decode()[-400:]}]}
    else:
        nat = json.loads(p.stdout.decode())
    k = 0
    _soften(obs, nat)
    for o in [o for o in obs if o["status"] == "refuted"]:
        k += 1
        path = write_text_replay(pid, k, "C06 liveness obligation refuted: %s\n%s" % (o["name"], o["reason"]), dict(property=pid, obligation=o["name"], reason=o["reason"], native=nat["violations"][:5]), cmd)
        violations.append(dict(obligation=o, path=path, reproduced=bool(nat["violations"]), case={"native": nat["violations"][:3]}))
    groups = {}
    for v in nat["violations"]:
        groups.setdefault(v["what"].split(":")[0], []).append(v)
    for what, vs in groups.items():
        k += 1
        o = obligation("C06/bounded:%s" % what, False, reason="%s on %s: %s" % (vs[0]["what"], vs[0]["net"], vs[0]["detail"]), props=("C06",), clause="bounded")
        path = write_text_replay(pid, k, "C06 bounded stand-in: %s" % what, dict(property=pid, native=vs[:10]), cmd)
        violations.append(dict(obligation=o, path=path, reproduced=True, case={"native": vs[:3]}))
    return dict(
        obligations=obs, violations=violations,
        bounded=[dict(function="views, statistics (all output formats), filterby/filterby_attr, neighbors/lookup/duplicates/isolates/singletons/empty/maximal, directed accessors, held views and stats across mutations",
                      bound="4 small networks with unsorted insertion order (H x2, SC, DH), fixed argument grid", cases=nat["checks"],
                      violations=len(nat["violations"]), kind="bounded stand-in: native comparison with the set-theoretic definitions computed from the raw tables")],
        trusted=["numpy.array / pandas.Series / pandas.concat preserve the order of the list / dict they are given (exercised, not proved)",
                 "Python attribute lookup: a view's tables alias the network's tables as long as those are never rebound"],
        assumptions=["weighted statistics, degree-filtered sizes, filterby*, duplicates, maximal, isolates and the pandas/numpy formats are covered by the bounded stand-in only",
                     "the handshake identity (degrees sum to sizes) follows from UInv/DInv by double counting; checked bounded here"],
    )


def c06_with_lemma(pid, tier, seed):
    """c06 + the handshake lemma (degrees sum to sizes), a Lean lemma over the invariants UInv / DInv."""
    base = c06(pid, tier, seed)
    from . import leanvc
    lem = leanvc.provider("C06", [])(pid, tier, seed)
    base["obligations"] += lem["obligations"]
    base["trusted"] = list(base.get("trusted", [])) + lem["trusted"]
    base["assumptions"] = [a for a in base.get("assumptions", []) if "handshake identity" not in a] + [
        "the handshake identity (degrees sum to sizes, directed: out-degrees to tail sizes, in-degrees to head sizes) is a Lean lemma from the two-way clause of "
        "UInv / DInv (double counting, Mathlib); the invariant itself is C01 / C02, the statistic definitions are proved here; also checked bounded"]
    base["functions"] = sorted(set(base.get("functions", [])) | set(lem.get("functions", [])))
    return base


EXTRA["C06"] = c06_with_lemma



import ast  # noqa: E402


def _independent_counter(v):
    """The value stored into the copy's `_edge_uid` is a counter object of its own that starts at or above the source's next id:
    `copy(self._edge_uid)`, or a new `count(e)` where every mention of the source's counter inside `e` is wrapped in `copy(..)`
    (so the source's counter is neither shared nor advanced) and `e` is that copied counter's next value or a `max(..)` having it
    among its arguments."""
    if not isinstance(v, ast.Call):
        return False
    fid = getattr(v.func, "id", "")
    if fid == "copy":
        return len(v.args) == 1 and ast.unparse(v.args[0]) == "self._edge_uid"
    if fid != "count" or len(v.args) != 1:
        return False
    e = v.args[0]
    wrapped = set()
    for n in ast.walk(e):
        if isinstance(n, ast.Call) and getattr(n.func, "id", "") == "copy" and len(n.args) == 1 and ast.unparse(n.args[0]) == "self._edge_uid":
            wrapped.add(id(n.args[0]))
    for n in ast.walk(e):
        if isinstance(n, ast.Attribute) and ast.unparse(n) == "self._edge_uid" and id(n) not in wrapped:
            return False
    src_next = "next(copy(self._edge_uid))"
    if ast.unparse(e) == src_next:
        return True
    return isinstance(e, ast.Call) and getattr(e.func, "id", "") == "max" and any(ast.unparse(a) == src_next for a in e.args)


def c07(pid, tier, seed):
    """Ownership / deep-copy obligations of copy() and the pickle hooks, discharged on the ASTs,
    plus the native equality/independence oracle (bounded)."""
    import ast
    obs = []

    def ob(name, ok, reason=None, where=None):
        o = obligation("C07/%s" % name, ok, reason=reason, where=where, props=("C07",), clause="ownership")
        o["backend"] = "syntactic ownership / deep-copy dataflow check on the AST"
        obs.append(o)

    FIELDS = ["_edge_uid", "_net_attr", "_node", "_node_attr", "_edge", "_edge_attr"]
    for cls, rel in (("Hypergraph", "xgi/core/hypergraph.py"), ("DiHypergraph", "xgi/core/dihypergraph.py"), ("SimplicialComplex", "xgi/core/simplicialcomplex.py")):
        m = extract.module(rel)
        cp = m.funcs.get("%s.copy" % cls)
        where = "%s::%s.copy" % (rel, cls)
        if cp is None:
            ob("copy:%s" % cls, False, "copy() not found", where)
        else:
            why = []
            fresh = any(isinstance(n, ast.Assign) and isinstance(n.value, ast.Call) and ast.unparse(n.value.func) == "self.__class__" and not n.value.args
                        for n in ast.walk(cp))
            if not fresh:
                why.append("the copy is not built from an empty self.__class__()")
            adders = [n for n in ast.walk(cp) if isinstance(n, ast.Call) and isinstance(n.func, ast.Attribute)
                      and n.func.attr in ("add_nodes_from", "add_edges_from", "add_simplices_from")]
            kinds = {n.func.attr for n in adders}
            if "add_nodes_from" not in kinds or not (kinds & {"add_edges_from", "add_simplices_from"}):
                why.append("nodes and edges are not both transferred through the bulk adders")
            for n in adders:
                g = n.args[0] if n.args else None
                if not isinstance(g, ast.GeneratorExp) or not isinstance(g.elt, ast.Tuple):
                    why.append("L%d: argument of %s is not a generator of tuples" % (n.lineno, n.func.attr))
                    continue
                last = g.elt.elts[-1]
                if not (isinstance(last, ast.Call) and isinstance(last.func, ast.Name) and last.func.id == "deepcopy"):
                    why.append("L%d: attribute record handed to %s is not deep-copied" % (n.lineno, n.func.attr))
                if n.func.attr != "add_nodes_from":
                    src = ast.unparse(g.generators[0].iter)
                    if "members(dtype=dict)" not in src and "dimembers(dtype=dict)" not in src:
                        why.append("L%d: member sets are not taken from the (copying) members accessor" % n.lineno)
            na = [n for n in ast.walk(cp) if isinstance(n, ast.Assign) and isinstance(n.targets[0], ast.Attribute) and n.targets[0].attr == "_net_attr"]
            if not na or not all(isinstance(n.value, ast.Call) and getattr(n.value.func, "id", "") == "deepcopy" for n in na):
                why.append("network attributes are not deep-copied")
            uid = [n for n in ast.walk(cp) if isinstance(n, ast.Assign) and isinstance(n.targets[0], ast.Attribute) and n.targets[0].attr == "_edge_uid"]
            if not uid or not all(_independent_counter(n.value) for n in uid):
                why.append("the id counter is not an independent copy of the source's counter")
            ob("copy:%s" % cls, not why, "; ".join(why) or None, where)
        # pickle hooks (SimplicialComplex inherits Hypergraph's)
        for hook in ("__getstate__", "__setstate__"):
            fn = m.funcs.get("%s.%s" % (cls, hook))
            if fn is None:
                continue
            where = "%s::%s.%s" % (rel, cls, hook)
            if hook == "__getstate__":
                ret = [n for n in ast.walk(fn) if isinstance(n, ast.Return)]
                ok = len(ret) == 1 and isinstance(ret[0].value, ast.Dict) and sorted(k.value for k in ret[0].value.keys) == sorted(FIELDS) and all(
                    ast.unparse(v) == "self.%s" % k.value for k, v in zip(ret[0].value.keys, ret[0].value.values))
                ob("pickle:%s.__getstate__" % cls, ok, None if ok else "the pickled state is not exactly the six state fields", where)
            else:
                got = {}
                for n in ast.walk(fn):
                    if isinstance(n, ast.Assign) and isinstance(n.targets[0], ast.Attribute) and n.targets[0].attr in FIELDS:
                        got[n.targets[0].attr] = ast.unparse(n.value)
                ok = all(got.get(f) == "state['%s']" % f for f in FIELDS)
                views_ok = sum(1 for n in ast.walk(fn) if isinstance(n, ast.Assign) and isinstance(n.targets[0], ast.Attribute)
                               and n.targets[0].attr in ("_nodeview", "_edgeview") and ast.unparse(n.value).endswith("(self)")) == 2
                ob("pickle:%s.__setstate__" % cls, ok and views_ok, None if ok and views_ok else "state fields / views are not restored one-to-one", where)
    cmd = [NATIVE_PY, os.path.join(ROOT, "pyvc", "native_c07.py"), extract.REPO, str(seed)]
    p = subprocess.run(cmd, stdout=subprocess.PIPE, stderr=subprocess.PIPE, cwd="/", timeout=900)
    nat = json.loads(p.stdout.decode()) if p.returncode == 0 else {"checks": 0, "violations": [{"what": "native oracle crashed", "net": "-", "detail": p.stderr.decode()[-400:]}]}
    violations, k = [], 0
    _soften(obs, nat)
    for o in [o for o in obs if o["status"] == "refuted"]:
        k += 1
        path = write_text_replay(pid, k, "C07 obligation refuted: %s\n%s" % (o["name"], o["reason"]), dict(property=pid, obligation=o["name"], reason=o["reason"], native=nat["violations"][:5]), cmd)
        violations.append(dict(obligation=o, path=path, reproduced=bool(nat["violations"]), case={"native": nat["violations"][:3]}))
    groups = {}
    for v in nat["violations"]:
        groups.setdefault(v["what"], []).append(v)
    for what, vs in groups.items():
        k += 1
        o = obligation("C07/bounded:%s" % what, False, reason="%s on %s: %s" % (what, vs[0]["net"], vs[0]["detail"]), props=("C07",), clause="bounded")
        path = write_text_replay(pid, k, "C07 bounded stand-in: %s" % what, dict(property=pid, native=vs[:10]), cmd)
        violations.append(dict(obligation=o, path=path, reproduced=True, case={"native": vs[:3]}))
    return dict(
        obligations=obs, violations=violations,
        bounded=[dict(function="copy(), pickle round trip, own-class constructor for the three classes", bound="3 networks with explicit ids, empty edge, isolated nodes, nested mutable attribute values; fixed edit scripts on both sides",
                      cases=nat["checks"], violations=len(nat["violations"]), kind="bounded stand-in: native equality / independence / fresh-id oracle")],
        trusted=["copy.deepcopy returns a value equal to its argument sharing no mutable object with it; copy.copy(itertools.count) is an independent counter with the same next value",
                 "pickle round-trips dicts, sets and itertools.count without sharing",
                 "the bulk adders store fresh sets and fresh attribute records (ownership obligations of the executor, C01/C02/C03 kernels)"],
        assumptions=["equality of the copy with its source is covered by the bounded stand-in, not by a discharged obligation (the adders' contracts do not yet relate the stored edges to the elements of a generator argument)",
                     "fresh ids after copy follow from C04's Fresh invariant plus uid_cp = uid_self (syntactic obligation on the counter copy)"],
    )


EXTRA["C07"] = c07


def oracle_part(pid, tier, seed, start=0):
    """Run the native oracle of a property (bounded stand-in); returns (bounded-entry, violations)."""
    cmd = [NATIVE_PY, os.path.join(ROOT, "pyvc", "native_oracles.py"), extract.REPO, str(seed), pid] + (["thorough"] if tier == "thorough" else [])
    p = subprocess.run(cmd, stdout=subprocess.PIPE, stderr=subprocess.PIPE, cwd="/", timeout=3000)
    if p.returncode != 0:
        nat = {"checks": 0, "bound": "-", "violations": [{"what": "native oracle crashed", "net": "-", "detail": p.stderr.decode()[-600:]}]}
    else:
        nat = json.loads(p.stdout.decode())
    groups = {}
    for v in nat["violations"]:
        groups.setdefault(v["what"].split(" (")[0], []).append(v)
    violations = []
    k = start
    for what, vs in groups.items():
        k += 1
        o = obligation("%s/bounded:%s" % (pid, what), False, reason="%s on %s: %s" % (vs[0]["what"], vs[0]["net"], vs[0]["detail"]), props=(pid,), clause="bounded")
        path = write_text_replay(pid, k, "%s bounded stand-in: %s" % (pid, what), dict(property=pid, native=vs[:10]), cmd)
        violations.append(dict(obligation=o, path=path, reproduced=True, case={"native": vs[:3]}))
    entry = dict(function="native oracle for %s (pyvc/native_oracles.py)" % pid, bound=nat.get("bound", ""), cases=nat["checks"], distinct=nat.get("distinct", 0),
                 violations=len(nat["violations"]), kind="bounded stand-in: definitions computed independently from the raw tables / networkx / numpy")
    return entry, violations


def with_oracle(pid, extra_fn=None):
    def run(pid_, tier, seed):
        base = extra_fn(pid_, tier, seed) if extra_fn else dict(obligations=[], violations=[], bounded=[], trusted=[], assumptions=[])
        entry, viol = oracle_part(pid_, tier, seed, start=100)
        base.setdefault("bounded", []).append(entry)
        if not viol:
            # glue obligations are stated on the shape of the code: one that fails while the property's own oracle finds no
            # misbehaviour means the code was rewritten into an equivalent shape - undecided, not a violation
            soft = [o for o in base.get("obligations", []) if o["status"] == "refuted" and o.get("clause") == "glue"]
            for o in soft:
                o["status"] = "unknown"
                o["reason"] = "%s [glue obligation not met, but the bounded oracle of this property finds no misbehaviour: undecided]" % (o.get("reason") or "")
            base["violations"] = [v for v in base.get("violations", []) if v["obligation"] not in soft]
        base.setdefault("violations", []).extend(viol)
        return base
    return run


for _p in ("C14", "C19", "C10", "C11", "C09", "C05", "C03"):
    EXTRA[_p] = with_oracle(_p)


def _lean(pid, notes):
    from . import leanvc
    return leanvc.provider(pid, notes)


EXTRA["C16"] = with_oracle("C16", _lean("C16", [
    "the generators that call the decoders (skip sampling, probabilities, seeds) are covered by the bounded oracle only"]))
EXTRA["C13"] = with_oracle("C13", _lean("C13", [
    "only the sign bookkeeping of boundary_matrix is under contract (every entry is +-1; the two routes to each codimension-2 face cancel, in the "
    "general branch and across the order-1 branch): this is the algebraic core of `consecutive boundary matrices multiply to zero`",
    "column support (exactly k+1 entries at the faces), index maps, vertex sorting for mixed labels, hodge_laplacian symmetry / PSD and the kernel dimension "
    "are covered by the bounded oracle only (exhaustive complexes on <= 4 vertices x orientation assignments)"]))
EXTRA["C15"] = with_oracle("C15", _lean("C15", [
    "only the normalisation count _max_number_of_subfaces is under contract; the Trie, EdgeView.maximal, the inclusion-exclusion over overlapping maximal faces "
    "and the three measures themselves are covered by the bounded oracle only (brute-force enumeration on exhaustive small hypergraphs)"]))



def c09_typed(pid, tier, seed):
    """Sort-coercion obligations (DESIGN 4/C09): a *list* of member sets must not be indexed by an id.
    A name bound to `.members()` (no dtype=dict) is a List; subscripting it with a variable that is
    not an integer position is refuted - the result would depend on the edge ids being 0..m-1."""
    import ast
    from . import framecheck as fc
    obs = []
    LISTY = {"members", "dimembers", "head", "tail", "aslist"}
    for rel in fc.package_modules():
        if not any(rel.startswith(pfx) for pfx in ("xgi/algorithms/", "xgi/stats/", "xgi/linalg/", "xgi/convert/", "xgi/generators/", "xgi/utils/", "xgi/communities/", "xgi/dynamics/")):
            continue
        m = extract.module(rel)
        for q, fn in m.funcs.items():
            lists, ints = set(), set()
            for n in ast.walk(fn):
                if isinstance(n, ast.Assign) and len(n.targets) == 1 and isinstance(n.targets[0], ast.Name) and isinstance(n.value, ast.Call):
                    f = n.value.func
                    if isinstance(f, ast.Attribute) and f.attr in LISTY and not n.value.args:
                        kws = {k.arg: k.value for k in n.value.keywords}
                        dt = kws.get("dtype")
                        if dt is None or not (isinstance(dt, ast.Name) and dt.id == "dict"):
                            lists.add(n.targets[0].id)
                if isinstance(n, (ast.For, ast.comprehension)):
                    it = n.iter
                    tg = n.target
                    if isinstance(it, ast.Call) and isinstance(it.func, ast.Name) and it.func.id in ("range", "enumerate"):
                        for t in ([tg] if isinstance(tg, ast.Name) else getattr(tg, "elts", [])[:1]):
                            if isinstance(t, ast.Name):
                                ints.add(t.id)
            bad = []
            for n in ast.walk(fn):
                if isinstance(n, ast.Subscript) and isinstance(n.value, ast.Name) and n.value.id in lists:
                    ix = n.slice
                    if isinstance(ix, ast.Name) and ix.id not in ints:
                        bad.append("L%d %s[%s]: a list of member sets indexed by an id" % (n.lineno, n.value.id, ix.id))
            if lists:
                o = obligation("C09/index-sort:%s::%s" % (rel, q), not bad, reason="; ".join(bad) or None, where="%s::%s" % (rel, q), props=("C09",), clause="sort-coercion")
                o["backend"] = "typed subscript check on the AST"
                obs.append(o)
    violations = []
    for i, o in enumerate([o for o in obs if o["status"] == "refuted"]):
        path = write_text_replay(pid, 50 + i, "C09 sort-coercion obligation refuted: %s\n%s" % (o["name"], o["reason"]), dict(property=pid, obligation=o["name"], reason=o["reason"]))
        violations.append(dict(obligation=o, path=path, reproduced=False, case=None))
    return dict(obligations=obs, violations=violations, bounded=[],
                trusted=["label-freeness of the C09-tagged contracts (degree/size statistics, BFS reach sets): they mention ids only through equality and membership, so they are equivariant under every bijection of ids and independent of insertion order"],
                assumptions=["numeric measures (Katz, assortativities, clustering via matrix products, simpliciality) are covered by the bounded relabelling oracle only"])


EXTRA["C09"] = with_oracle("C09", c09_typed)


def c11_glue(pid, tier, seed):
    """Glue obligations of the file formats (DESIGN 4/C11): the writer hands exactly to_*_dict(H) to
    json.dumps *before* the file is opened and writes exactly that string; the reader hands exactly
    json.loads(text) to from_*_dict with the caller's casts; collection file names equal the
    relative paths recorded for them.  Dataflow checks on the ASTs (straight-line code)."""
    import ast
    obs = []

    SHAPE = ("not found", "no `json.dumps", "does not return", "does not call")  # the expected code shape is absent: undecided

    def ob(name, ok, reason=None, where=None):
        o = obligation("C11/%s" % name, ok, reason=reason, where=where, props=("C11",), clause="glue")
        o["backend"] = "dataflow check on the AST"
        if not ok and reason and all(any(k in part for k in SHAPE) for part in reason.split("; ")):
            # the function no longer has the straight-line shape these obligations are stated on (e.g. json.dump(data, f)
            # instead of dumps + write): nothing wrong was seen, nothing was proved - undecided, never a violation
            o["status"] = "unknown"
        obs.append(o)

    def assigns(fn):
        return {n.targets[0].id: n for n in ast.walk(fn) if isinstance(n, ast.Assign) and len(n.targets) == 1 and isinstance(n.targets[0], ast.Name)}

    def call_name(c):
        return ast.unparse(c.func) if isinstance(c, ast.Call) else None

    for rel, w, to_dict, r, from_dict in (("xgi/readwrite/hif.py", "write_hif", "to_hif_dict", "read_hif", "from_hif_dict"),
                                          ("xgi/readwrite/json.py", "write_json", "to_hypergraph_dict", "read_json", "from_hypergraph_dict")):
        m = extract.module(rel)
        fn = m.funcs.get(w)
        why = []
        if fn is None:
            why.append("%s not found" % w)
        else:
            # the single-network branch: find `data = to_dict(H)`, `datastring = json.dumps(data, ...)`, with open(path,'w'): write(datastring)
            dumps = [n for n in ast.walk(fn) if isinstance(n, ast.Assign) and call_name(n.value) == "json.dumps"]
            found = False
            for d in dumps:
                arg = d.value.args[0]
                if not isinstance(arg, ast.Name):
                    continue
                src = [n for n in ast.walk(fn) if isinstance(n, ast.Assign) and isinstance(n.targets[0], ast.Name) and n.targets[0].id == arg.id and call_name(n.value) == to_dict]
                if not src:
                    continue
                if not (len(src[-1].value.args) == 1 and ast.unparse(src[-1].value.args[0]) == "H"):
                    why.append("%s is not applied to the network itself" % to_dict)
                withs = [n for n in ast.walk(fn) if isinstance(n, ast.With) and call_name(n.items[0].context_expr) == "open" and n.lineno > d.lineno
                         and ast.unparse(n.items[0].context_expr.args[0]) == "path"]
                ok_w = False
                for wn in withs:
                    for c in ast.walk(wn):
                        if isinstance(c, ast.Call) and isinstance(c.func, ast.Attribute) and c.func.attr == "write" and c.args and ast.unparse(c.args[0]) == d.targets[0].id:
                            ok_w = True
                if not ok_w:
                    why.append("the serialised string is not what is written to `path` after serialisation")
                early = [n for n in ast.walk(fn) if isinstance(n, ast.With) and call_name(n.items[0].context_expr) == "open" and n.lineno < d.lineno
                         and ast.unparse(n.items[0].context_expr.args[0]) == "path"]
                if early:
                    why.append("the file is opened before the data is serialised")
                found = True
            if not found:
                why.append("no `json.dumps(%s(H))` dataflow found" % to_dict)
        ob("write:%s" % w, not why, "; ".join(why) or None, "%s::%s" % (rel, w))
        fn = m.funcs.get(r)
        why = []
        if fn is None:
            why.append("%s not found" % r)
        else:
            rets = [n for n in ast.walk(fn) if isinstance(n, ast.Return) and call_name(n.value) == from_dict]
            if not rets:
                why.append("the reader does not return %s(...)" % from_dict)
            for rt in rets:
                a0 = rt.value.args[0] if rt.value.args else None
                kws = {k.arg: ast.unparse(k.value) for k in rt.value.keywords}
                if kws.get("nodetype") != "nodetype" or kws.get("edgetype") != "edgetype":
                    why.append("the caller's nodetype/edgetype casts are not passed through")
                if not isinstance(a0, ast.Name):
                    why.append("the parsed data is not passed directly")
                else:
                    src = [n for n in ast.walk(fn) if isinstance(n, ast.Assign) and isinstance(n.targets[0], ast.Name) and n.targets[0].id == a0.id]
                    if not src or not all(call_name(n.value) == "json.loads" and ast.unparse(n.value.args[0]).endswith(".read()") for n in src):
                        why.append("the data handed to %s is not json.loads(file text)" % from_dict)
        ob("read:%s" % r, not why, "; ".join(why) or None, "%s::%s" % (rel, r))
        # collections: file name written == relative path recorded
        for wname in (w, "write_hif_collection"):
            fn = m.funcs.get(wname)
            if fn is None:
                continue
            pairs = []
            for n in ast.walk(fn):
                if isinstance(n, (ast.For,)):
                    fa = [a for a in ast.walk(n) if isinstance(a, ast.Assign) and isinstance(a.targets[0], ast.Name) and a.targets[0].id == "fname" and isinstance(a.value, ast.JoinedStr)]
                    ra = [a for a in ast.walk(n) if isinstance(a, ast.Dict) and any(isinstance(k, ast.Constant) and k.value == "relative-path" for k in a.keys)]
                    if fa and ra:
                        pairs.append((fa[0].value, ra[0].values[0]))
            if not pairs:
                continue
            why = []
            for fname, relp in pairs:
                fs, rs = ast.unparse(fname), ast.unparse(relp)
                # f'{path}/{X}' vs f'{X}'
                if not (fs.startswith("f'{path}/") and fs[len("f'{path}/"):] == rs[len("f'"):]):
                    why.append("file name %s does not match the recorded relative path %s" % (fs, rs))
            ob("collection-paths:%s" % wname, not why, "; ".join(why) or None, "%s::%s" % (rel, wname))
    # text formats: arguments passed through
    for rel, rd, parse, kws in (("xgi/readwrite/edgelist.py", "read_edgelist", "parse_edgelist", ["comments", "delimiter", "create_using", "nodetype"]),
                                ("xgi/readwrite/bipartite.py", "read_bipartite_edgelist", "parse_bipartite_edgelist", ["comments", "delimiter", "create_using", "nodetype", "edgetype", "dual"])):
        m = extract.module(rel)
        fn = m.funcs.get(rd)
        why = []
        calls = [n for n in ast.walk(fn) if isinstance(n, ast.Call) and call_name(n) == parse] if fn else []
        if not calls:
            why.append("%s does not call %s" % (rd, parse))
        for c in calls:
            got = {k.arg: ast.unparse(k.value) for k in c.keywords}
            for k in kws:
                if got.get(k) != k:
                    why.append("argument %s is not passed through to %s" % (k, parse))
        ob("read:%s" % rd, not why, "; ".join(why) or None, "%s::%s" % (rel, rd))
    violations = []
    for i, o in enumerate([o for o in obs if o["status"] == "refuted"]):
        path = write_text_replay(pid, 50 + i, "C11 glue obligation refuted: %s\n%s" % (o["name"], o["reason"]), dict(property=pid, obligation=o["name"], reason=o["reason"]))
        violations.append(dict(obligation=o, path=path, reproduced=False, case=None))
    return dict(obligations=obs, violations=violations, bounded=[],
                trusted=["json.loads(json.dumps(x)) == x for JSON-representable x with string keys", "str / split / join round trip for labels without the delimiter, the comment marker or surrounding whitespace",
                         "numpy.savetxt / loadtxt(ndmin=2) round-trip 0/1 matrices", "the file system returns what was written"],
                assumptions=["the dict halves (to_hif_dict / from_hif_dict, to_hypergraph_dict / from_hypergraph_dict) and the text parsers are covered by the bounded round-trip oracle (real files in a scratch directory)"])


EXTRA["C11"] = with_oracle("C11", c11_glue)


def c18_cover(pid, tier, seed):
    """Coverage obligations: every *indirect* structural mutator of each class (recomputed from the
    ASTs) has a contract carrying a C18 clause; only freeze()/__init__/__setstate__ store instance
    attributes (so `shadowed iff frozen and listed by freeze()` is the whole truth)."""
    import ast
    import contracts  # noqa
    from . import frames
    from .spec import REGISTRY
    obs = []
    for kind, cls in (("H", "Hypergraph"), ("DH", "DiHypergraph"), ("SC", "SimplicialComplex")):
        d, ind = frames.struct_mutators(kind)
        names = extract.freeze_names(kind)
        missing = [m for m in d if m not in names]
        o = obligation("C18/freeze-lists-direct-mutators:%s" % cls, not missing, reason=("not shadowed by freeze(): %s" % missing) if missing else None,
                       props=("C18",), clause="coverage", where=extract.resolve_method(kind, "freeze"))
        obs.append(o)
        for m in ind:
            q = extract.resolve_method(kind, m)
            sp = REGISTRY.get(q)
            ok = sp is not None and "C18" in sp.props
            o = obligation("C18/indirect-mutator-has-contract:%s.%s" % (cls, m), ok, props=("C18",), clause="coverage", where=q,
                           reason=None if ok else "indirect structural mutator without a C18 contract (raises XGIError or leaves the tables unchanged when frozen)")
            if not ok:
                o["status"] = "unknown"  # not a violation: the machinery does not cover this method yet
            obs.append(o)
        bad = []
        for name, q in extract.public_methods(kind).items():
            if name in ("freeze", "__init__", "__setstate__"):
                continue
            for n in ast.walk(extract.function(q)):
                if isinstance(n, ast.Assign):
                    for t in n.targets:
                        if isinstance(t, ast.Attribute) and isinstance(t.value, ast.Name) and t.value.id == "self" and t.attr not in frames.TABLES and t.attr not in ("_nodeview", "_edgeview"):
                            bad.append("%s stores self.%s" % (q.split("::")[1], t.attr))
        obs.append(obligation("C18/only-freeze-installs-attributes:%s" % cls, not bad, reason="; ".join(bad[:4]) or None, props=("C18",), clause="coverage"))
    violations = []
    for i, o in enumerate([o for o in obs if o["status"] == "refuted"]):
        path = write_text_replay(pid, 50 + i, "C18 obligation refuted: %s\n%s" % (o["name"], o["reason"]), dict(property=pid, obligation=o["name"], reason=o["reason"]))
        violations.append(dict(obligation=o, path=path, reproduced=False, case=None))
    return dict(obligations=obs, violations=violations, bounded=[], trusted=["Python attribute lookup: an instance attribute shadows the class's method of the same name"], assumptions=[])


EXTRA["C18"] = c18_cover


def c12_glue(pid, tier, seed):
    """Glue obligations of incidence_matrix / adjacency_matrix (C12): the only Python-level part of the matrix
    code.  Each obligation is a dataflow fact on the AST; three outcomes: the expected flow is there (discharged), a
    *different* flow is there (refuted: e.g. rows filled from the edge index), or the code no longer has the shape the
    obligation talks about (unknown -> undecided).  The numeric content of every matrix is bounded-only."""
    import ast
    obs = []
    rel = "xgi/linalg/hypergraph_matrix.py"
    m = extract.module(rel)

    def ob(name, status, reason=None, fn="incidence_matrix"):
        o = obligation("C12/%s" % name, status == "ok", reason=reason, where="%s::%s" % (rel, fn), props=("C12",), clause="glue")
        o["backend"] = "dataflow check on the AST"
        if status == "unknown":
            o["status"] = "unknown"
        obs.append(o)

    def un(e):
        return ast.unparse(e).replace(" ", "") if e is not None else None

    fn = m.funcs.get("incidence_matrix")
    if fn is None:
        for nm in ("index-maps", "inverse-maps", "entries", "assembly", "result-order"):
            ob("incidence:%s" % nm, "unknown", "incidence_matrix not found")
    else:
        asg = {}
        for n in ast.walk(fn):
            if isinstance(n, ast.Assign) and len(n.targets) == 1 and isinstance(n.targets[0], ast.Name):
                asg.setdefault(n.targets[0].id, []).append(n.value)
        # 1. index maps: X_dict = dict(zip(V, range(N))), N = len(V)
        res, why = "ok", []
        views = {}
        for d in ("node_dict", "edge_dict"):
            vals = asg.get(d, [])
            if len(vals) != 1 or not (isinstance(vals[0], ast.Call) and un(vals[0].func) == "dict" and len(vals[0].args) == 1
                                      and isinstance(vals[0].args[0], ast.Call) and un(vals[0].args[0].func) == "zip" and len(vals[0].args[0].args) == 2):
                res = "unknown"
                why.append("%s is not built as dict(zip(ids, range(n)))" % d)
                continue
            ids, rng = vals[0].args[0].args
            views[d] = un(ids)
            if not (isinstance(rng, ast.Call) and un(rng.func) == "range" and len(rng.args) == 1 and isinstance(rng.args[0], ast.Name)):
                res = "unknown"
                why.append("%s: second zip argument is not range(<name>)" % d)
                continue
            nvals = asg.get(rng.args[0].id, [])
            if len(nvals) == 1 and isinstance(nvals[0], ast.Call) and un(nvals[0].func) == "len" and len(nvals[0].args) == 1:
                if un(nvals[0].args[0]) != un(ids):
                    res = "refuted" if res != "unknown" else res
                    why.append("%s: positions run over range(len(%s)) but the ids are %s" % (d, un(nvals[0].args[0]), un(ids)))
            else:
                res = "unknown"
                why.append("%s: the range bound is not len(<the same ids>)" % d)
        if res == "ok" and views.get("node_dict") == views.get("edge_dict"):
            res, why = "refuted", ["node and edge index maps are built from the same ids"]
        ob("incidence:index-maps", res, "; ".join(why) or None)
        # 2. inverse maps
        res, why = "ok", []
        for d, src in (("rowdict", "node_dict"), ("coldict", "edge_dict")):
            vals = [v for v in asg.get(d, []) if isinstance(v, ast.DictComp)]
            if len(vals) != 1:
                res = "unknown"
                why.append("%s is not a single dict comprehension" % d)
                continue
            c = vals[0]
            g = c.generators[0]
            if not (len(c.generators) == 1 and isinstance(g.target, ast.Tuple) and len(g.target.elts) == 2 and un(g.iter).endswith(".items()") and not g.ifs):
                res = "unknown"
                why.append("%s: unexpected comprehension shape" % d)
                continue
            k, v = un(g.target.elts[0]), un(g.target.elts[1])
            if not (un(c.key) == v and un(c.value) == k):
                res = "refuted"
                why.append("%s does not invert its source map" % d)
            if un(g.iter) != "%s.items()" % src:
                res = "refuted"
                why.append("%s inverts %s instead of %s" % (d, un(g.iter)[:-8], src))
        ob("incidence:inverse-maps", res, "; ".join(why) or None)
        # 3. entries: nested loop with the three appends
        res, why = "unknown", ["no `for edge in edge_ids: for node in <members of edge>:` loop nest with appends found"]
        for outer in [n for n in ast.walk(fn) if isinstance(n, ast.For)]:
            inner = [n for n in outer.body if isinstance(n, ast.For)]
            if not inner or not isinstance(outer.target, ast.Name):
                continue
            e = outer.target.id
            loc = {n.targets[0].id: un(n.value) for n in outer.body if isinstance(n, ast.Assign) and isinstance(n.targets[0], ast.Name)}
            for inn in inner:
                if not isinstance(inn.target, ast.Name):
                    continue
                nd = inn.target.id
                apps = {}
                for st in inn.body:
                    if isinstance(st, ast.Expr) and isinstance(st.value, ast.Call) and isinstance(st.value.func, ast.Attribute) and st.value.func.attr == "append" and len(st.value.args) == 1:
                        apps[un(st.value.func.value)] = un(st.value.args[0])
                if not apps:
                    continue
                res, why = "ok", []
                it = un(inn.iter)
                it = loc.get(it, it)
                if it not in ("H._edge[%s]" % e, "H.edges.members(%s)" % e):
                    res = "unknown"
                    why.append("inner loop iterates %s, not the members of `%s`" % (it, e))
                if un(outer.iter) != views.get("edge_dict", "edge_ids"):
                    res = "refuted" if res == "ok" else res
                    why.append("outer loop iterates %s but columns are indexed over %s" % (un(outer.iter), views.get("edge_dict")))
                want = {"rows": "node_dict[%s]" % nd, "cols": "edge_dict[%s]" % e, "data": "weight(%s,%s,H)" % (nd, e)}
                for k, w in want.items():
                    if k not in apps:
                        res = "unknown" if res == "ok" else res
                        why.append("no append to `%s`" % k)
                    elif apps[k] != w:
                        res = "refuted"
                        why.append("`%s` receives %s instead of %s" % (k, apps[k], w))
                extra = set(apps) - set(want)
                if extra:
                    res = "unknown" if res == "ok" else res
                    why.append("other lists appended to: %s" % sorted(extra))
        ob("incidence:entries", res, "; ".join(why) or None)
        # 4. assembly
        res, why = "ok", []
        csr = [n for n in ast.walk(fn) if isinstance(n, ast.Call) and un(n.func) == "csr_array" and n.args and isinstance(n.args[0], ast.Tuple) and len(n.args[0].elts) == 2
               and isinstance(n.args[0].elts[1], ast.Tuple)]
        if len(csr) != 1:
            res = "unknown"
            why.append("no single csr_array((data, (rows, cols)), shape=...) call")
        else:
            c = csr[0]
            if un(c.args[0]) != "(data,(rows,cols))":
                res = "refuted"
                why.append("sparse matrix is built from %s, expected (data,(rows,cols))" % un(c.args[0]))
            shp = {k.arg: un(k.value) for k in c.keywords}.get("shape")
            if shp != "(num_nodes,num_edges)":
                res = "refuted" if shp else "unknown"
                why.append("sparse shape is %s, expected (num_nodes,num_edges)" % shp)
        zer = [n for n in ast.walk(fn) if isinstance(n, ast.Call) and un(n.func) == "np.zeros" and n.args]
        sto = [n for n in ast.walk(fn) if isinstance(n, ast.Assign) and isinstance(n.targets[0], ast.Subscript) and un(n.targets[0].value) == "I"]
        if len(zer) != 1 or len(sto) != 1:
            res = "unknown" if res == "ok" else res
            why.append("dense branch is not `I = np.zeros(shape); I[rows, cols] = data`")
        else:
            if un(zer[0].args[0]) != "(num_nodes,num_edges)":
                res = "refuted"
                why.append("dense shape is %s, expected (num_nodes,num_edges)" % un(zer[0].args[0]))
            if un(sto[0].targets[0].slice) not in ("rows,cols", "(rows,cols)") or un(sto[0].value) != "data":
                res = "refuted"
                why.append("dense store is I[%s] = %s, expected I[rows, cols] = data" % (un(sto[0].targets[0].slice), un(sto[0].value)))
        ob("incidence:assembly", res, "; ".join(why) or None)
        # 5. result order
        rets = sorted((n.lineno, un(n.value)) for n in ast.walk(fn) if isinstance(n, ast.Return) and n.value is not None)
        last = rets[-1][1] if rets else None
        if last == "(I,rowdict,coldict)ifindexelseI":
            ob("incidence:result-order", "ok")
        elif last and "rowdict" in last and "coldict" in last and last.index("coldict") < last.index("rowdict"):
            ob("incidence:result-order", "refuted", "the index maps are returned as (edges, nodes): %s" % last)
        else:
            ob("incidence:result-order", "unknown", "final return is %s" % last)
    # adjacency = I I^T, zero diagonal, thresholded by s
    fn = m.funcs.get("adjacency_matrix")
    if fn is None:
        ob("adjacency:product-diagonal-threshold", "unknown", "adjacency_matrix not found", "adjacency_matrix")
    else:
        src = [un(n) for n in ast.walk(fn) if isinstance(n, (ast.Assign, ast.Expr))]
        res, why = "ok", []
        prod = [x for x in src if x.startswith("A=") and ".dot(" in x]
        if prod != ["A=I.dot(I.T)"]:
            res = "refuted" if prod else "unknown"
            why.append("product is %s, expected A=I.dot(I.T)" % prod)
        if not any(x == "A.setdiag(0)" for x in src) or not any(x == "np.fill_diagonal(A,0)" for x in src):
            res = "unknown" if res == "ok" else res
            why.append("the diagonal is not cleared in both the sparse and the dense branch")
        thr = sorted(x for x in src if x.startswith("A=(A"))
        if thr != ["A=(A>=s)*1", "A=(A>=s)*A"]:
            res = "refuted" if thr else ("unknown" if res == "ok" else res)
            why.append("thresholding is %s, expected A=(A>=s)*1 / A=(A>=s)*A" % thr)
        ob("adjacency:product-diagonal-threshold", res, "; ".join(why) or None, "adjacency_matrix")
    violations = []
    for i, o in enumerate([o for o in obs if o["status"] == "refuted"]):
        path = write_text_replay(pid, 50 + i, "C12 glue obligation refuted: %s\n%s" % (o["name"], o["reason"]), dict(property=pid, obligation=o["name"], reason=o["reason"]))
        violations.append(dict(obligation=o, path=path, reproduced=False, case=None))
    return dict(obligations=obs, violations=violations, bounded=[], functions=["hypergraph_matrix.incidence_matrix", "hypergraph_matrix.adjacency_matrix"],
                trusted=["dict(zip(ids, range(len(ids)))) numbers the ids 0..n-1 in iteration order; scipy csr_array((data, (rows, cols)), shape) and numpy fancy assignment "
                         "place data[k] at (rows[k], cols[k]); .dot, setdiag, fill_diagonal, comparison and product of arrays have their documented meaning"],
                assumptions=["only the Python glue of incidence_matrix / adjacency_matrix is under contract; degree vector, intersection profile, clique-motif matrix, adjacency tensor, "
                             "all Laplacians, symmetry / row sums / PSD and sparse-dense agreement are covered by the bounded oracle only (brute-force construction from members())"])


EXTRA["C12"] = with_oracle("C12", c12_glue)
