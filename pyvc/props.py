"""Per-property extra back ends (framecheck, Lean, bounded tables) plugged into the driver."""
EXTRA = {}
