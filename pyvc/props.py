"""Per-property extra back ends (framecheck, Lean, bounded tables) plugged into the driver."""
import json
import os
import subprocess
import time

from . import extract

ROOT = os.path.dirname(os.path.dirname(os.path.abspath(__file__)))
NATIVE_PY = "/venv/bin/python"
NET_PARAM_NAMES = ("H", "net", "S", "SC", "DH", "data", "H1", "H2")
# documented in-place (docstring / signature): the frame clause does not apply to these
C08_IN_PLACE_FUNCS = {"update_uid_counter", "empty_hypergraph", "empty_dihypergraph", "empty_simplicial_complex", "_empty_network"}
READONLY_CLASSES = ("IDView", "NodeView", "EdgeView", "DiNodeView", "DiEdgeView", "IDStat", "NodeStat", "EdgeStat",
                    "DiNodeStat", "DiEdgeStat", "MultiIDStat", "MultiNodeStat", "MultiEdgeStat", "MultiDiNodeStat", "MultiDiEdgeStat")
NET_CLASSES = {"Hypergraph": "H", "DiHypergraph": "DH", "SimplicialComplex": "SC"}
OWN_FIELD_STORES_OK = {"__init__", "__setstate__", "__getattr__"}


def obligation(name, ok, reason=None, where=None, secs=0.0, props=("C08",), clause="frame"):
    return dict(name=name, clause=clause, props=list(props), status="discharged" if ok else "refuted", secs=secs,
                where=where, kind="frame", model=None, reason=reason, external=True, backend="framecheck (syntactic, modular)")


def write_text_replay(pid, idx, title, doc, native_cmd=None):
    d = os.path.join(ROOT, "out", pid)
    os.makedirs(d, exist_ok=True)
    path = os.path.join(d, "replay_x%d.py" % idx)
    with open(path, "w") as f:
        f.write('"""%s"""\n' % title.replace('"""', "'''"))
        f.write("REPLAY = %r\n" % json.dumps(doc))
        if native_cmd:
            f.write("\nif __name__ == '__main__':\n    import subprocess, sys, json\n    out = subprocess.run(%r, stdout=subprocess.PIPE, cwd='/').stdout\n"
                    "    r = json.loads(out)\n    print(r['violations'])\n    sys.exit(1 if r['violations'] else 0)\n" % (native_cmd,))
    return path


def native_c08(seed, only=None):
    cmd = [NATIVE_PY, os.path.join(ROOT, "pyvc", "native_c08.py"), extract.REPO, str(seed), ",".join(only) if only else ""]
    p = subprocess.run(cmd, stdout=subprocess.PIPE, stderr=subprocess.PIPE, cwd="/", timeout=900)
    if p.returncode != 0:
        raise RuntimeError("native_c08 failed: %s" % p.stderr.decode()[-1500:])
    return json.loads(p.stdout.decode()), cmd


def c08(pid, tier, seed):
    from . import framecheck as fc
    from . import frames
    t0 = time.time()
    sums, msums, funcs, methods = fc.summarize_all(fold_in_place=True)
    pub = fc.public_names()
    obs = []
    # (a) public functions
    for name in sorted(pub):
        if name not in sums or name in C08_IN_PLACE_FUNCS:
            continue
        s = sums[name]
        idxs = [i for i, p in enumerate(s.params) if p in NET_PARAM_NAMES]
        if not idxs:
            continue
        bad = [(i, s.writes[i]) for i in idxs if i in s.writes]
        obs.append(obligation("C08/frame:%s" % name, not bad, reason="; ".join("L%d %s" % w for i, ws in bad for w in ws[:3]) or None, where=s.qual))
    # (b) non-mutating public methods of the three classes, (c) every method of views / stats
    mut = {}
    for cls, kind in NET_CLASSES.items():
        d, i = frames.struct_mutators(kind)
        mut[cls] = set(d) | set(i) | {"set_node_attributes", "set_edge_attributes", "freeze", "__setitem__", "__setstate__", "__init__"}
    for q in sorted(msums):
        cls, m = q.split(".", 1)
        s = msums[q]
        if cls in NET_CLASSES:
            inherited_mut = set().union(*mut.values())
            if m in mut[cls] or m in inherited_mut or (m.startswith("_") and not m.startswith("__")):
                continue
            bad = s.writes.get(0, [])
            obs.append(obligation("C08/frame:%s" % q, not bad, reason="; ".join("L%d %s" % w for w in bad[:3]) or None, where=s.qual))
        elif cls in READONLY_CLASSES:
            bad = [w for w in s.writes.get(0, []) if not (m in OWN_FIELD_STORES_OK and "attribute store" in w[1])]
            obs.append(obligation("C08/frame:%s" % q, not bad, reason="; ".join("L%d %s" % w for w in bad[:3]) or None, where=s.qual))
            if m in fc.FRESH_METHODS:
                ok = 0 not in s.returns
                obs.append(obligation("C08/fresh-result:%s" % q, ok, clause="fresh-result", where=s.qual,
                                      reason=None if ok else "the result may share a mutable object with the network (callers treat it as a copy)"))
    # bounded stand-in
    nat, cmd = native_c08(seed)
    violations = []
    k = 0
    refuted = [o for o in obs if o["status"] == "refuted"]
    nat_by_fn = {}
    for v in nat["violations"]:
        nat_by_fn.setdefault(v["function"], []).append(v)
    for o in refuted:
        fn = o["name"].split(":", 1)[1]
        k += 1
        hit = nat_by_fn.get(fn) or nat_by_fn.get(fn.split(".")[-1])
        doc = dict(property=pid, obligation=o["name"], reason=o["reason"], where=o["where"], native=hit)
        path = write_text_replay(pid, k, "C08 frame obligation refuted: %s\n%s" % (o["name"], o["reason"]), doc,
                                 [NATIVE_PY, os.path.join(ROOT, "pyvc", "native_c08.py"), extract.REPO, str(seed), fn.split(".")[-1]])
        violations.append(dict(obligation=o, path=path, reproduced=bool(hit), case={"function": fn, "native": hit}))
    for fn, hits in nat_by_fn.items():
        if any(o["name"].split(":", 1)[1] in (fn, ) or o["name"].endswith("." + fn) for o in refuted):
            continue
        k += 1
        o = obligation("C08/bounded:%s" % fn, False, reason="snapshot differs after the call: %s" % hits[0]["diff"], clause="bounded")
        path = write_text_replay(pid, k, "C08 bounded stand-in: %s mutates its argument" % fn, dict(property=pid, native=hits),
                                 [NATIVE_PY, os.path.join(ROOT, "pyvc", "native_c08.py"), extract.REPO, str(seed), fn])
        violations.append(dict(obligation=o, path=path, reproduced=True, case={"function": fn, "native": hits}))
    return dict(
        obligations=obs, violations=violations,
        bounded=[dict(function="every public callable whose first parameter is a network (%d called successfully) + view accessors" % nat["functions_called"],
                      bound="5 small networks (H mixed/str/small, SC, DH) x default arguments guessed by parameter name, seed %d" % seed,
                      cases=nat["calls"], violations=len(nat["violations"]), kind="bounded stand-in: deep snapshot before/after on the real function",
                      skipped=nat["skipped"])],
        trusted=["framecheck alias/borrow analysis (pyvc/framecheck.py): flow-sensitive rebinding, flag folding, callee summaries",
                 "external libraries (numpy, scipy, networkx, pandas, matplotlib, json) do not mutate Python containers passed to them",
                 "methods listed in framecheck.FRESH_METHODS that are not defined in xgi (dict/set/ndarray methods) return fresh objects"],
        assumptions=["network parameters are recognised by name: %s" % ", ".join(NET_PARAM_NAMES),
                     "documented in-place callables excluded: %s and the mutating methods of the three classes" % ", ".join(sorted(C08_IN_PLACE_FUNCS)),
                     "functions with an in_place flag are checked on the in_place=False path (flag constant-folded)"],
    )


EXTRA = {"C08": c08}


def c17(pid, tier, seed):
    from . import rngcheck
    obs = []
    res = rngcheck.analyse()
    for r in res:
        o = obligation("C17/rng-frame:%s" % r["function"], not r["problems"], reason="; ".join(r["problems"]) or None,
                       where=r["where"], props=("C17",), clause="rng-frame")
        o["backend"] = "rngcheck (syntactic effect frame on the global generators, modular)"
        obs.append(o)
    cmd = [NATIVE_PY, os.path.join(ROOT, "pyvc", "native_c17.py"), extract.REPO, str(seed)]
    p = subprocess.run(cmd, stdout=subprocess.PIPE, stderr=subprocess.PIPE, cwd="/", timeout=1200)
    if p.returncode != 0:
        raise RuntimeError("native_c17 failed: %s" % p.stderr.decode()[-1500:])
    nat = json.loads(p.stdout.decode())
    by = {}
    for v in nat["violations"]:
        by.setdefault(v["function"], []).append(v)
    violations = []
    k = 0
    refuted = [o for o in obs if o["status"] == "refuted"]
    for o in refuted:
        fn = o["name"].split(":", 1)[1]
        k += 1
        hit = by.get(fn)
        path = write_text_replay(pid, k, "C17 rng-frame obligation refuted: %s\n%s" % (o["name"], o["reason"]),
                                 dict(property=pid, obligation=o["name"], reason=o["reason"], native=hit), cmd + [fn])
        violations.append(dict(obligation=o, path=path, reproduced=bool(hit), case={"function": fn, "native": hit}))
    for fn, hits in by.items():
        if any(o["name"].endswith(":" + fn) for o in refuted):
            continue
        k += 1
        o = obligation("C17/bounded:%s" % fn, False, reason="two calls with the same seed differ: %s" % hits[0], props=("C17",), clause="bounded")
        path = write_text_replay(pid, k, "C17 bounded stand-in: %s is not determined by its seed" % fn, dict(property=pid, native=hits), cmd + [fn])
        violations.append(dict(obligation=o, path=path, reproduced=True, case={"function": fn, "native": hits}))
    return dict(
        obligations=obs, violations=violations,
        bounded=[dict(function="%d seeded functions" % nat["functions"], bound="fixed small argument grid x seeds {s, s+1, 7}, globals disturbed and the function re-run with another seed in between",
                      cases=nat["calls"], violations=len(nat["violations"]), kind="bounded stand-in: native double run", errors=nat["errors"])],
        trusted=["a generator seeded with s produces a sequence that is a function of s (random, numpy.random, default_rng)",
                 "networkx functions given seed=s, and scipy eigsh given v0, are deterministic in their arguments",
                 "iteration order of sets/dicts is a function of their construction history within one process",
                 "rngcheck call classification (pyvc/rngcheck.py): random.*, np.random.*, default_rng, EXT_TAKES_SEED, EXT_HIDDEN tables"],
        assumptions=["determinism is claimed only for seed is not None (the functions seed under `if seed is not None`)",
                     "effect signatures of external calls are assumed (EXT_HIDDEN: eigsh/eigs/svds draw a start vector unless v0 is given)"],
    )


EXTRA["C17"] = c17
