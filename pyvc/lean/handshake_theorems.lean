import Mathlib.Combinatorics.Enumerative.DoubleCounting
open Finset

-- BEGIN handshake
/-- Two-way incidence (the first conjunct of UInv, contracts `pyvc/spec.py`), over finite key sets:
    `n` is a key of the node table and lists `e`  iff  `e` is a key of the edge table and lists `n`. -/
def TwoWay {ι κ : Type*} (nk : Finset ι) (ek : Finset κ) (N : ι → Finset κ) (E : κ → Finset ι) : Prop :=
  ∀ n e, (n ∈ nk ∧ e ∈ N n) ↔ (e ∈ ek ∧ n ∈ E e)

/-- degrees sum to sizes -/
theorem handshake {ι κ : Type*} [DecidableEq ι] [DecidableEq κ] (nk : Finset ι) (ek : Finset κ)
    (N : ι → Finset κ) (E : κ → Finset ι) (h : TwoWay nk ek N E) :
    ∑ n ∈ nk, (N n).card = ∑ e ∈ ek, (E e).card := by
  classical
  have key := Finset.sum_card_bipartiteAbove_eq_sum_card_bipartiteBelow (s := nk) (t := ek) (fun n e => e ∈ N n)
  have h1 : ∀ n ∈ nk, (ek.bipartiteAbove (fun n e => e ∈ N n) n) = N n := by
    intro n hn
    ext e
    simp only [Finset.bipartiteAbove, Finset.mem_filter]
    constructor
    · exact fun x => x.2
    · intro he
      exact ⟨((h n e).1 ⟨hn, he⟩).1, he⟩
  have h2 : ∀ e ∈ ek, (nk.bipartiteBelow (fun n e => e ∈ N n) e) = E e := by
    intro e he
    ext n
    simp only [Finset.bipartiteBelow, Finset.mem_filter]
    constructor
    · intro x
      exact ((h n e).1 ⟨x.1, x.2⟩).2
    · intro hn
      exact (h n e).2 ⟨he, hn⟩
  calc ∑ n ∈ nk, (N n).card = ∑ n ∈ nk, (ek.bipartiteAbove (fun n e => e ∈ N n) n).card :=
        Finset.sum_congr rfl (fun n hn => by rw [h1 n hn])
    _ = ∑ e ∈ ek, (nk.bipartiteBelow (fun n e => e ∈ N n) e).card := key
    _ = ∑ e ∈ ek, (E e).card := Finset.sum_congr rfl (fun e he => by rw [h2 e he])

/-- directed: out-degrees sum to tail sizes, in-degrees sum to head sizes (the two conjuncts of DInv) -/
theorem handshake_directed {ι κ : Type*} [DecidableEq ι] [DecidableEq κ] (nk : Finset ι) (ek : Finset κ)
    (Nin Nout : ι → Finset κ) (Ein Eout : κ → Finset ι)
    (hout : TwoWay nk ek Nout Ein) (hin : TwoWay nk ek Nin Eout) :
    (∑ n ∈ nk, (Nout n).card = ∑ e ∈ ek, (Ein e).card) ∧ (∑ n ∈ nk, (Nin n).card = ∑ e ∈ ek, (Eout e).card) :=
  ⟨handshake nk ek Nout Ein hout, handshake nk ek Nin Eout hin⟩
-- END handshake
