/- Spec functions and proofs for the index decoders of xgi/generators/uniform.py (C16).
   The definitions `decode_prod` / `decode_part` are NOT in this file: they are generated from the real Python source
   on every run (pyvc/leanvc.py) and spliced in before the section of their function. -/
import Mathlib.Tactic.Ring
import Mathlib.Tactic.Linarith
import Mathlib.Data.Nat.Choose.Basic
import Mathlib.Algebra.BigOperators.Intervals
set_option linter.unusedVariables false
set_option linter.unusedSimpArgs false

-- BEGIN _index_to_edge_prod
/-- spec: value of a digit list, most significant digit first, in base n -/
def encode_prod (n : Nat) : List Nat → Nat
  | [] => 0
  | d :: ds => d * n ^ ds.length + encode_prod n ds

theorem decode_prod_length (index n m : Nat) : (decode_prod index n m).length = m := by
  simp [decode_prod]

theorem decode_prod_succ (index n m : Nat) :
    decode_prod index n (m + 1) = (index / n ^ m % n) :: decode_prod index n m := by
  simp [decode_prod, List.range_succ]

theorem encode_decode_prod_mod (index n : Nat) :
    ∀ m, encode_prod n (decode_prod index n m) = index % n ^ m := by
  intro m
  induction m with
  | zero => simp [decode_prod, encode_prod, Nat.mod_one]
  | succ k ih =>
    rw [decode_prod_succ, encode_prod, decode_prod_length, ih, Nat.mod_pow_succ]
    ring

/-- encode ∘ decode = id on [0, n^m): the decoder is injective and loses nothing -/
theorem prod_left_inverse (index n m : Nat) (h : index < n ^ m) :
    encode_prod n (decode_prod index n m) = index := by
  rw [encode_decode_prod_mod, Nat.mod_eq_of_lt h]

/-- every entry of the decoded edge is a node label in [0, n) -/
theorem prod_digits_in_range (index n m : Nat) (hn : 0 < n) :
    ∀ d ∈ decode_prod index n m, d < n := by
  intro d hd
  simp [decode_prod] at hd
  obtain ⟨r, _, rfl⟩ := hd
  exact Nat.mod_lt _ hn

theorem prod_injective (i j n m : Nat) (hi : i < n ^ m) (hj : j < n ^ m)
    (h : decode_prod i n m = decode_prod j n m) : i = j := by
  have := congrArg (encode_prod n) h
  rwa [prod_left_inverse i n m hi, prod_left_inverse j n m hj] at this

theorem encode_prod_lt (n : Nat) : ∀ ds : List Nat, (∀ d ∈ ds, d < n) → encode_prod n ds < n ^ ds.length := by
  intro ds
  induction ds with
  | nil => intro _; simp [encode_prod]
  | cons d ds ih =>
    intro h
    have hd : d < n := h d (by simp)
    have hds : encode_prod n ds < n ^ ds.length := ih (fun x hx => h x (by simp [hx]))
    simp only [encode_prod, List.length_cons, pow_succ]
    have : d * n ^ ds.length + n ^ ds.length ≤ n ^ ds.length * n := by
      have : (d + 1) * n ^ ds.length ≤ n * n ^ ds.length := Nat.mul_le_mul_right _ hd
      linarith [this, Nat.mul_comm n (n ^ ds.length)]
    linarith

theorem decode_prod_mod (i n : Nat) : ∀ m, decode_prod (i % n ^ m) n m = decode_prod i n m := by
  intro m
  simp only [decode_prod]
  apply List.map_congr_left
  intro r hr
  have hr' : r < m := by simpa using hr
  obtain ⟨k, rfl⟩ : ∃ k, m = r + (k + 1) := ⟨m - r - 1, by omega⟩
  rw [pow_add, Nat.mod_mul_right_div_self, pow_succ, Nat.mod_mod_of_dvd _ (Dvd.intro_left _ rfl)]

/-- decode ∘ encode = id on digit lists of length m with entries in [0, n): the decoder is onto the tuples -/
theorem prod_right_inverse (n : Nat) : ∀ (ds : List Nat), (∀ d ∈ ds, d < n) →
    decode_prod (encode_prod n ds) n ds.length = ds := by
  intro ds
  induction ds with
  | nil => intro _; simp [decode_prod]
  | cons d ds ih =>
    intro h
    have hd : d < n := h d (by simp)
    have hds : ∀ x ∈ ds, x < n := fun x hx => h x (by simp [hx])
    have hlt := encode_prod_lt n ds hds
    have hpos : 0 < n ^ ds.length := by
      rcases Nat.eq_zero_or_pos n with h0 | h0
      · subst h0; omega
      · exact Nat.pow_pos h0
    rw [List.length_cons, decode_prod_succ, encode_prod]
    have h1 : (d * n ^ ds.length + encode_prod n ds) / n ^ ds.length = d := by
      rw [Nat.mul_comm, Nat.mul_add_div hpos, Nat.div_eq_of_lt hlt]; simp
    have h2 : (d * n ^ ds.length + encode_prod n ds) % n ^ ds.length = encode_prod n ds := by
      rw [Nat.mul_comm, Nat.mul_add_mod, Nat.mod_eq_of_lt hlt]
    rw [h1, Nat.mod_eq_of_lt hd, ← decode_prod_mod, h2, ih hds]
-- END _index_to_edge_prod

-- BEGIN _index_to_edge_partition
/-- spec: mixed-radix value of the digits, most significant first, radices = block sizes -/
def encode_part : List Nat → List Nat → Nat
  | s :: ss, d :: ds => d * ss.prod + encode_part ss ds
  | _, _ => 0

theorem decode_part_cons (index s : Nat) (ss : List Nat) (m : Nat) :
    decode_part index (s :: ss) (m + 1) = (index / ss.prod % s) :: decode_part index ss m := by
  simp [decode_part, List.range_succ_eq_map, List.map_map, Function.comp_def]

theorem encode_decode_part_mod (index : Nat) : ∀ (sizes : List Nat),
    encode_part sizes (decode_part index sizes sizes.length) = index % sizes.prod := by
  intro sizes
  induction sizes with
  | nil => simp [decode_part, encode_part, Nat.mod_one]
  | cons s ss ih =>
    rw [List.length_cons, decode_part_cons, encode_part, ih, List.prod_cons, Nat.mul_comm s, Nat.mod_mul]
    ring

/-- encode ∘ decode = id on [0, prod sizes) when there is one block size per edge position -/
theorem part_left_inverse (index : Nat) (sizes : List Nat) (m : Nat) (hm : sizes.length = m)
    (h : index < sizes.prod) : encode_part sizes (decode_part index sizes m) = index := by
  subst hm
  rw [encode_decode_part_mod, Nat.mod_eq_of_lt h]

/-- the r-th entry is an index into the r-th block -/
theorem part_digits_in_range (index : Nat) (sizes : List Nat) (m : Nat) (hm : sizes.length = m)
    (hpos : ∀ s ∈ sizes, 0 < s) :
    ∀ r, r < m → (decode_part index sizes m).getD r 0 < sizes.getD r 0 := by
  intro r hr
  subst hm
  have hs : 0 < sizes.getD r 0 := by
    have h1 : sizes.getD r 0 = sizes[r] := by simp [List.getD, hr]
    rw [h1]; exact hpos _ (List.getElem_mem hr)
  have h2 : (decode_part index sizes sizes.length).getD r 0
      = index / (sizes.drop (r + 1)).prod % sizes.getD r 0 := by
    simp [decode_part, List.getD, hr]
  rw [h2]
  exact Nat.mod_lt _ hs

theorem part_injective (i j : Nat) (sizes : List Nat) (m : Nat) (hm : sizes.length = m)
    (hi : i < sizes.prod) (hj : j < sizes.prod)
    (h : decode_part i sizes m = decode_part j sizes m) : i = j := by
  have := congrArg (encode_part sizes) h
  rwa [part_left_inverse i sizes m hm hi, part_left_inverse j sizes m hm hj] at this
-- END _index_to_edge_partition

-- BEGIN _index_to_edge_comb
open Finset

/-- the number of k-subsets of {lo, …, n-1} whose least element is < v -/
def below (n k lo v : Nat) : Nat := ∑ u ∈ Ico lo v, Nat.choose (n - 1 - u) (k - 1)

/-- inner loop: started with r in [1, C(n - lo, k)] (k = m - s + 1 elements still to choose from {lo..n-1}) it stops at the
    value cs whose block of C(n-1-cs, k-1) completions contains r, and leaves the rank inside that block -/
theorem inner_spec (n m s : Nat) (hs : s ≤ m) :
    ∀ (fuel r lo : Nat), n - lo ≤ fuel → 1 ≤ r → r ≤ Nat.choose (n - lo) (m - s + 1) →
      let res := comb_inner n m s fuel r lo
      lo ≤ res.2 ∧ res.2 + (m - s) < n ∧ 1 ≤ res.1 ∧ res.1 ≤ Nat.choose (n - 1 - res.2) (m - s) ∧
        r = below n (m - s + 1) lo res.2 + res.1 := by
  intro fuel
  induction fuel with
  | zero =>
    intro r lo hf h1 h2
    have : n - lo = 0 := by omega
    rw [this] at h2
    simp at h2
    omega
  | succ f ih =>
    intro r lo hf h1 h2
    have hlo : lo < n := by
      by_contra h
      have : n - lo = 0 := by omega
      rw [this] at h2
      simp at h2
      omega
    have hpas : Nat.choose (n - lo) (m - s + 1) = Nat.choose (n - 1 - lo) (m - s) + Nat.choose (n - (lo + 1)) (m - s + 1) := by
      have : n - lo = (n - 1 - lo) + 1 := by omega
      rw [this, Nat.choose_succ_succ]
      congr 2
      omega
    simp only [comb_inner]
    split_ifs with hgt
    · have := ih (r - Nat.choose (n - 1 - lo) (m - s)) (lo + 1) (by omega) (by omega) (by omega)
      obtain ⟨a, b, c, d, e⟩ := this
      refine ⟨by omega, b, c, d, ?_⟩
      have hb : below n (m - s + 1) lo (comb_inner n m s f (r - Nat.choose (n - 1 - lo) (m - s)) (lo + 1)).2
          = Nat.choose (n - 1 - lo) (m - s) + below n (m - s + 1) (lo + 1) (comb_inner n m s f (r - Nat.choose (n - 1 - lo) (m - s)) (lo + 1)).2 := by
        unfold below
        rw [Finset.sum_eq_sum_Ico_succ_bot (by omega)]
        simp
      omega
    · refine ⟨le_refl _, ?_, h1, (by show r ≤ Nat.choose (n - 1 - lo) (m - s); omega), ?_⟩
      · show lo + (m - s) < n
        by_contra hc
        have : Nat.choose (n - 1 - lo) (m - s) = 0 := by
          apply Nat.choose_eq_zero_of_lt
          omega
        omega
      · simp [below]

/-- spec: number of k-subsets of {lo..n-1} that precede `ds` in lexicographic order -/
def rank_from (n : Nat) : Nat → Nat → List Nat → Nat
  | _, _, [] => 0
  | lo, k, v :: vs => below n k lo v + rank_from n (v + 1) (k - 1) vs

/-- strictly increasing, first element ≥ lo, all elements < n -/
def IncFrom (n : Nat) : Nat → List Nat → Prop
  | _, [] => True
  | lo, v :: vs => lo ≤ v ∧ v < n ∧ IncFrom n (v + 1) vs

theorem fold_spec (n m : Nat) : ∀ (k t lo r : Nat) (acc : List Nat), t + k = m → 1 ≤ r → r ≤ Nat.choose (n - lo) k →
    ∃ ds j1, (List.range' (t + 1) k).foldl (comb_step n m) (acc, r, lo) = (acc ++ ds, 1, j1)
      ∧ ds.length = k ∧ r = rank_from n lo k ds + 1 ∧ IncFrom n lo ds := by
  intro k
  induction k with
  | zero =>
    intro t lo r acc _ h1 h2
    refine ⟨[], lo, ?_, rfl, ?_, trivial⟩
    · simp at h2
      have : r = 1 := by omega
      subst this
      simp
    · simp at h2
      simp [rank_from]
      omega
  | succ k ih =>
    intro t lo r acc htk h1 h2
    have hms : m - (t + 1) = k := by omega
    have hsp := inner_spec n m (t + 1) (by omega) n r lo (by omega) h1 (by rw [hms]; exact h2)
    rw [hms] at hsp
    obtain ⟨a, b, c, d, e⟩ := hsp
    set res := comb_inner n m (t + 1) n r lo with hres
    have hle : res.1 ≤ Nat.choose (n - (res.2 + 1)) k := by
      have : n - (res.2 + 1) = n - 1 - res.2 := by omega
      rw [this]; exact d
    obtain ⟨ds', j1, hf, hl, hr, hi⟩ := ih (t + 1) (res.2 + 1) res.1 (acc ++ [res.2]) (by omega) c hle
    refine ⟨res.2 :: ds', j1, ?_, by simp [hl], ?_, ⟨a, by omega, hi⟩⟩
    · rw [List.range'_succ, List.foldl_cons]
      have : comb_step n m (acc, r, lo) (t + 1) = (acc ++ [res.2], res.1, res.2 + 1) := by
        simp [comb_step, hres]
      rw [this, hf]
      simp
    · simp only [rank_from]
      have : k + 1 - 1 = k := by omega
      rw [this]
      omega

/-- for every index < C(n, m): the decoded edge has m entries, strictly increasing, all in [0, n), and its lexicographic rank
    among the m-subsets of {0..n-1} is the index -/
theorem decode_comb_spec (index n m : Nat) (h : index < Nat.choose n m) :
    (decode_comb index n m).length = m ∧ IncFrom n 0 (decode_comb index n m)
      ∧ rank_from n 0 m (decode_comb index n m) = index := by
  obtain ⟨ds, j1, hf, hl, hr, hi⟩ := fold_spec n m m 0 0 (index + 1) [] (by omega) (by omega) (by simpa using h)
  have : decode_comb index n m = ds := by
    have hrange : m + 1 - 1 = m := by omega
    simp only [decode_comb, hrange]
    simp only [Nat.zero_add] at hf
    rw [hf]
    simp
  rw [this]
  exact ⟨hl, hi, by omega⟩

theorem decode_comb_injective (i j n m : Nat) (hi : i < Nat.choose n m) (hj : j < Nat.choose n m)
    (h : decode_comb i n m = decode_comb j n m) : i = j := by
  have a := (decode_comb_spec i n m hi).2.2
  have b := (decode_comb_spec j n m hj).2.2
  rw [h] at a
  omega
-- END _index_to_edge_comb
