/- Spec functions and proofs for the index decoders of xgi/generators/uniform.py (C16).
   The definitions `decode_prod` / `decode_part` are NOT in this file: they are generated from the real Python source
   on every run (pyvc/leanvc.py) and spliced in before the section of their function. -/
import Mathlib.Tactic.Ring
import Mathlib.Tactic.Linarith
set_option linter.unusedVariables false
set_option linter.unusedSimpArgs false

-- BEGIN _index_to_edge_prod
/-- spec: value of a digit list, most significant digit first, in base n -/
def encode_prod (n : Nat) : List Nat → Nat
  | [] => 0
  | d :: ds => d * n ^ ds.length + encode_prod n ds

theorem decode_prod_length (index n m : Nat) : (decode_prod index n m).length = m := by
  simp [decode_prod]

theorem decode_prod_succ (index n m : Nat) :
    decode_prod index n (m + 1) = (index / n ^ m % n) :: decode_prod index n m := by
  simp [decode_prod, List.range_succ]

theorem encode_decode_prod_mod (index n : Nat) :
    ∀ m, encode_prod n (decode_prod index n m) = index % n ^ m := by
  intro m
  induction m with
  | zero => simp [decode_prod, encode_prod, Nat.mod_one]
  | succ k ih =>
    rw [decode_prod_succ, encode_prod, decode_prod_length, ih, Nat.mod_pow_succ]
    ring

/-- encode ∘ decode = id on [0, n^m): the decoder is injective and loses nothing -/
theorem prod_left_inverse (index n m : Nat) (h : index < n ^ m) :
    encode_prod n (decode_prod index n m) = index := by
  rw [encode_decode_prod_mod, Nat.mod_eq_of_lt h]

/-- every entry of the decoded edge is a node label in [0, n) -/
theorem prod_digits_in_range (index n m : Nat) (hn : 0 < n) :
    ∀ d ∈ decode_prod index n m, d < n := by
  intro d hd
  simp [decode_prod] at hd
  obtain ⟨r, _, rfl⟩ := hd
  exact Nat.mod_lt _ hn

theorem prod_injective (i j n m : Nat) (hi : i < n ^ m) (hj : j < n ^ m)
    (h : decode_prod i n m = decode_prod j n m) : i = j := by
  have := congrArg (encode_prod n) h
  rwa [prod_left_inverse i n m hi, prod_left_inverse j n m hj] at this

theorem encode_prod_lt (n : Nat) : ∀ ds : List Nat, (∀ d ∈ ds, d < n) → encode_prod n ds < n ^ ds.length := by
  intro ds
  induction ds with
  | nil => intro _; simp [encode_prod]
  | cons d ds ih =>
    intro h
    have hd : d < n := h d (by simp)
    have hds : encode_prod n ds < n ^ ds.length := ih (fun x hx => h x (by simp [hx]))
    simp only [encode_prod, List.length_cons, pow_succ]
    have : d * n ^ ds.length + n ^ ds.length ≤ n ^ ds.length * n := by
      have : (d + 1) * n ^ ds.length ≤ n * n ^ ds.length := Nat.mul_le_mul_right _ hd
      linarith [this, Nat.mul_comm n (n ^ ds.length)]
    linarith

theorem decode_prod_mod (i n : Nat) : ∀ m, decode_prod (i % n ^ m) n m = decode_prod i n m := by
  intro m
  simp only [decode_prod]
  apply List.map_congr_left
  intro r hr
  have hr' : r < m := by simpa using hr
  obtain ⟨k, rfl⟩ : ∃ k, m = r + (k + 1) := ⟨m - r - 1, by omega⟩
  rw [pow_add, Nat.mod_mul_right_div_self, pow_succ, Nat.mod_mod_of_dvd _ (Dvd.intro_left _ rfl)]

/-- decode ∘ encode = id on digit lists of length m with entries in [0, n): the decoder is onto the tuples -/
theorem prod_right_inverse (n : Nat) : ∀ (ds : List Nat), (∀ d ∈ ds, d < n) →
    decode_prod (encode_prod n ds) n ds.length = ds := by
  intro ds
  induction ds with
  | nil => intro _; simp [decode_prod]
  | cons d ds ih =>
    intro h
    have hd : d < n := h d (by simp)
    have hds : ∀ x ∈ ds, x < n := fun x hx => h x (by simp [hx])
    have hlt := encode_prod_lt n ds hds
    have hpos : 0 < n ^ ds.length := by
      rcases Nat.eq_zero_or_pos n with h0 | h0
      · subst h0; omega
      · exact Nat.pow_pos h0
    rw [List.length_cons, decode_prod_succ, encode_prod]
    have h1 : (d * n ^ ds.length + encode_prod n ds) / n ^ ds.length = d := by
      rw [Nat.mul_comm, Nat.mul_add_div hpos, Nat.div_eq_of_lt hlt]; simp
    have h2 : (d * n ^ ds.length + encode_prod n ds) % n ^ ds.length = encode_prod n ds := by
      rw [Nat.mul_comm, Nat.mul_add_mod, Nat.mod_eq_of_lt hlt]
    rw [h1, Nat.mod_eq_of_lt hd, ← decode_prod_mod, h2, ih hds]
-- END _index_to_edge_prod

-- BEGIN _index_to_edge_partition
/-- spec: mixed-radix value of the digits, most significant first, radices = block sizes -/
def encode_part : List Nat → List Nat → Nat
  | s :: ss, d :: ds => d * ss.prod + encode_part ss ds
  | _, _ => 0

theorem decode_part_cons (index s : Nat) (ss : List Nat) (m : Nat) :
    decode_part index (s :: ss) (m + 1) = (index / ss.prod % s) :: decode_part index ss m := by
  simp [decode_part, List.range_succ_eq_map, List.map_map, Function.comp_def]

theorem encode_decode_part_mod (index : Nat) : ∀ (sizes : List Nat),
    encode_part sizes (decode_part index sizes sizes.length) = index % sizes.prod := by
  intro sizes
  induction sizes with
  | nil => simp [decode_part, encode_part, Nat.mod_one]
  | cons s ss ih =>
    rw [List.length_cons, decode_part_cons, encode_part, ih, List.prod_cons, Nat.mul_comm s, Nat.mod_mul]
    ring

/-- encode ∘ decode = id on [0, prod sizes) when there is one block size per edge position -/
theorem part_left_inverse (index : Nat) (sizes : List Nat) (m : Nat) (hm : sizes.length = m)
    (h : index < sizes.prod) : encode_part sizes (decode_part index sizes m) = index := by
  subst hm
  rw [encode_decode_part_mod, Nat.mod_eq_of_lt h]

/-- the r-th entry is an index into the r-th block -/
theorem part_digits_in_range (index : Nat) (sizes : List Nat) (m : Nat) (hm : sizes.length = m)
    (hpos : ∀ s ∈ sizes, 0 < s) :
    ∀ r, r < m → (decode_part index sizes m).getD r 0 < sizes.getD r 0 := by
  intro r hr
  subst hm
  have hs : 0 < sizes.getD r 0 := by
    have h1 : sizes.getD r 0 = sizes[r] := by simp [List.getD, hr]
    rw [h1]; exact hpos _ (List.getElem_mem hr)
  have h2 : (decode_part index sizes sizes.length).getD r 0
      = index / (sizes.drop (r + 1)).prod % sizes.getD r 0 := by
    simp [decode_part, List.getD, hr]
  rw [h2]
  exact Nat.mod_lt _ hs

theorem part_injective (i j : Nat) (sizes : List Nat) (m : Nat) (hm : sizes.length = m)
    (hi : i < sizes.prod) (hj : j < sizes.prod)
    (h : decode_part i sizes m = decode_part j sizes m) : i = j := by
  have := congrArg (encode_part sizes) h
  rwa [part_left_inverse i sizes m hm hi, part_left_inverse j sizes m hm hj] at this
-- END _index_to_edge_partition
