/- Spec and proofs for xgi/algorithms/simpliciality.py::_max_number_of_subfaces (C15: the normalisation of the
   face edit distance is "the number of node sets inside a maximal face, of at least the minimum size, other than the
   face itself").  `max_subfaces` is generated from the real loop on every run (pyvc/leanvc.py). -/
import Mathlib.Tactic.Ring
import Mathlib.Tactic.Linarith
import Mathlib.Data.Nat.Choose.Sum
set_option linter.unusedVariables false
open Finset

-- BEGIN _max_number_of_subfaces
theorem foldl_sub (f : Nat → Int) : ∀ (l : List Nat) (init : Int),
    l.foldl (fun d i => d - f i) init = init - (l.map f).sum := by
  intro l
  induction l with
  | nil => intro init; simp
  | cons x xs ih => intro init; simp [List.foldl_cons, ih]; ring

theorem list_range'_sum (f : Nat → Int) (a n : Nat) :
    ((List.range' a n).map f).sum = ∑ i ∈ Ico a (a + n), f i := by
  induction n generalizing a with
  | zero => simp
  | succ k ih =>
    rw [List.range'_succ, List.map_cons, List.sum_cons, ih (a + 1)]
    rw [show a + 1 + k = a + (k + 1) by omega]
    rw [Finset.sum_eq_sum_Ico_succ_bot (by omega : a < a + (k + 1))]

/-- the loop computes 2^max - 2 - Σ_{1 ≤ i < min} C(max, i) -/
theorem max_subfaces_closed (mn mx : Nat) (h1 : 1 ≤ mn) :
    max_subfaces mn mx = (2 : Int) ^ mx - 2 - ∑ i ∈ Ico 1 mn, (Nat.choose mx i : Int) := by
  unfold max_subfaces
  rw [foldl_sub, list_range'_sum, show 1 + (mn - 1) = mn by omega]

/-- ... which is the number of subsets of a `mx`-set whose size s satisfies mn ≤ s < mx -/
theorem max_subfaces_spec (mn mx : Nat) (h1 : 1 ≤ mn) (h2 : mn ≤ mx) :
    max_subfaces mn mx = ∑ i ∈ Ico mn mx, (Nat.choose mx i : Int) := by
  rw [max_subfaces_closed mn mx h1]
  have hsum : (∑ i ∈ range (mx + 1), (Nat.choose mx i : Int)) = (2 : Int) ^ mx := by
    have := Nat.sum_range_choose mx
    exact_mod_cast this
  have hsplit : (∑ i ∈ range (mx + 1), (Nat.choose mx i : Int))
      = (Nat.choose mx 0 : Int) + ∑ i ∈ Ico 1 mn, (Nat.choose mx i : Int)
        + ∑ i ∈ Ico mn mx, (Nat.choose mx i : Int) + (Nat.choose mx mx : Int) := by
    rw [Finset.range_eq_Ico, Finset.sum_Ico_succ_top (by omega : 0 ≤ mx),
        Finset.sum_eq_sum_Ico_succ_bot (by omega : 0 < mx),
        ← Finset.sum_Ico_consecutive _ (by omega : 0 + 1 ≤ mn) h2]
    simp; ring
  simp at hsplit
  linarith

theorem max_subfaces_nonneg (mn mx : Nat) (h1 : 1 ≤ mn) (h2 : mn ≤ mx) : 0 ≤ max_subfaces mn mx := by
  rw [max_subfaces_spec mn mx h1 h2]
  exact Finset.sum_nonneg (fun i _ => by positivity)
-- END _max_number_of_subfaces
