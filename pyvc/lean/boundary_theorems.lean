/- Sign bookkeeping of xgi/linalg/hodge_matrix.py::boundary_matrix (C13).  `induced`, `entry`, `entry1_head`,
   `entry1_tail`, `head_pos`, `tail_pos` are generated from the real expressions on every run (pyvc/leanvc.py).
   Conventions (assumed, see the evidence): vertices of a simplex are sorted once; the count-th face in
   `combinations` order of a simplex of order p omits the vertex at position p - count. -/
import Mathlib.Tactic.Ring
import Mathlib.Tactic.Linarith
import Mathlib.Tactic.SplitIfs
import Mathlib.Algebra.Group.Even
import Mathlib.Algebra.Ring.Parity
set_option linter.unusedVariables false
set_option linter.unusedTactic false
set_option linter.unreachableTactic false

-- BEGIN boundary_matrix
theorem neg_one_pow_parity (n : Nat) : ((-1 : Int)) ^ n = if n % 2 = 0 then 1 else -1 := by
  rcases Nat.even_or_odd n with h | h
  · rw [h.neg_one_pow]; simp [Nat.even_iff.mp h]
  · rw [h.neg_one_pow]; simp [Nat.odd_iff.mp h]

/-- every entry written by the general branch has absolute value one -/
theorem entry_abs (o_u order count o_f : Nat) :
    entry o_u order count o_f = 1 ∨ entry o_u order count o_f = -1 := by
  simp only [entry, neg_one_pow_parity]
  split_ifs <;> simp

theorem entry1_abs (o_u : Nat) :
    (entry1_head o_u = 1 ∨ entry1_head o_u = -1) ∧ entry1_tail o_u = - entry1_head o_u := by
  simp only [entry1_head, entry1_tail, neg_one_pow_parity]
  split_ifs <;> simp

/-- in the order-1 branch the head is the larger vertex (position 1), the tail the smaller (position 0) -/
theorem positions : head_pos = 1 ∧ tail_pos = 0 := by decide

/-- ∂∂ = 0, general branch: σ of order p ≥ 2... any p, codimension-2 face τ omitting the sorted vertices at positions
    a < b ≤ p.  Route 1 drops a first (then b sits at position b-1 of the face), route 2 drops b first. -/
theorem boundary_cancel (o_s o_f1 o_f2 o_t p a b : Nat) (hab : a < b) (hb : b ≤ p) :
    entry o_s p (p - a) o_f1 * entry o_f1 (p - 1) ((p - 1) - (b - 1)) o_t
      + entry o_s p (p - b) o_f2 * entry o_f2 (p - 1) ((p - 1) - a) o_t = 0 := by
  simp only [entry, induced, neg_one_pow_parity]
  split_ifs <;> first | omega | (exfalso; omega)

/-- ∂₁∂₂ = 0 on a triangle v0 < v1 < v2 (faces by the general branch with p = 2, their ends by the order-1 branch):
    f01 omits v2 (count 0), f02 omits v1 (count 1), f12 omits v0 (count 2). -/
theorem triangle_cancel_v0 (o_s o_01 o_02 : Nat) :
    entry o_s 2 0 o_01 * entry1_tail o_01 + entry o_s 2 1 o_02 * entry1_tail o_02 = 0 := by
  simp only [entry, induced, entry1_tail, neg_one_pow_parity]
  split_ifs <;> first | omega | (exfalso; omega)

theorem triangle_cancel_v1 (o_s o_01 o_12 : Nat) :
    entry o_s 2 0 o_01 * entry1_head o_01 + entry o_s 2 2 o_12 * entry1_tail o_12 = 0 := by
  simp only [entry, induced, entry1_head, entry1_tail, neg_one_pow_parity]
  split_ifs <;> first | omega | (exfalso; omega)

theorem triangle_cancel_v2 (o_s o_02 o_12 : Nat) :
    entry o_s 2 1 o_02 * entry1_head o_02 + entry o_s 2 2 o_12 * entry1_head o_12 = 0 := by
  simp only [entry, induced, entry1_head, entry1_tail, neg_one_pow_parity]
  split_ifs <;> first | omega | (exfalso; omega)
-- END boundary_matrix
