#!/bin/sh
# tools/regen.sh [ids...] : run the quick check of every claimed property on the current tree, report exit codes
cd /verif || exit 9
ids="$@"
[ -z "$ids" ] && ids=$(python3 -c "import json;print(' '.join(c['property_id'] for c in json.load(open('MANIFEST.json'))['checks']))")
fail=0
for p in $ids; do
  s=$(date +%s)
  out=$(./check $p --tier quick 2>&1); rc=$?
  e=$(( $(date +%s) - s ))
  echo "$p rc=$rc ${e}s :: $(echo "$out" | grep '^property' | tail -1)"
  [ $rc -ne 0 ] && { fail=1; echo "$out" | grep -v "^property" | head -8; }
done
exit $fail
