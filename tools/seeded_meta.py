#!/usr/bin/env python3
"""Fill in the descriptive part of /verif/seeded/<name>/meta.json (the `check` block is written by seeded_run.py).

Every entry was produced by a fresh sub-agent that saw only the property text and its own scratch worktree, then
confirmed by tools/confirm_mutant.sh in another scratch worktree: the pinned suite still passes (494 stable tests),
demo.py exits non-zero with the change and 0 without it."""
import json
import os

ROOT = os.path.join(os.path.dirname(os.path.dirname(os.path.abspath(__file__))), "seeded")
CONFIRM = ("tools/confirm_mutant.sh: git worktree of /repo HEAD outside /repo and /verif, `git apply patch.diff`, pinned test suite "
           "(all 494 stable tests still pass), demo.py exits non-zero with the change and 0 after `git checkout -- xgi`; worktree removed")
D = {
    "C01-m1": ("Hypergraph.add_edges_from synchronises the id counter once after the loop (with the last id) instead of after every explicit id",
               "explicit integer ids in non-increasing order in one bulk call (e.g. ids 3 then 1), followed by an automatic-id add_edge: the automatic id overwrites edge 3 and leaves a dangling membership"),
    "C01-m2": ("Hypergraph.add_edges_from (dict format) no longer rejects a None member before writing the edge table",
               "a dict-format bulk add with None among the members: XGIError is still raised (by IDDict) but the edge is left half-added (member that is not a node, no attribute record)"),
    "C02-m1": ("DiHypergraph.remove_node(strong=True) merges the tail / head clean-up loops into one if/else",
               "strong removal of a node from an edge in which another node is in both head and tail: that node keeps pointing at the deleted edge"),
    "C02-m2": ("DiHypergraph.add_edges_from tests `idx in existing_ids` against a snapshot taken before the loop",
               "a bulk add (format 2) that repeats an edge id within the same call: the repeat overwrites the members while the first edge's nodes keep their memberships"),
    "C03-m2": ("SimplicialComplex.add_simplex moves update_uid_counter after the sub-face loop",
               "a simplex with an explicit integer id just above the automatic counter that needs new faces: a face receives the same id and overwrites the simplex"),
    "C04-m1": ("Hypergraph.add_edges_from moves update_uid_counter after the two attribute updates",
               "a bulk add with explicit ids whose attribute entry is malformed (None): the call raises after the edge is in the tables but before the counter is advanced; a later automatic id collides"),
    "C04-m2": ("update_uid_counter replaces float(idx).is_integer() by isinstance(idx, (int, np.integer))",
               "integer-valued float edge ids (e.g. 0.0 from a float64 pandas column): they occupy the dictionary slot of the integer the counter hands out next"),
    "C05-m1": ("Hypergraph.double_edge_swap drops the two membership-size tests from the size/degree guard",
               "the same node on both sides, member of both edges: the swap is no longer rejected and changes degrees"),
    "C05-m2": ("DiHypergraph.add_nodes_from uses the shared keyword-attribute dict itself instead of a copy for (node, dict) entries",
               "two (node, attr-dict) entries in one call: the second node also receives the first node's own attributes"),
    "C06-m1": ("dinodestats.degree(order=, weight=) becomes in_degree + out_degree",
               "a node that is in both head and tail of an edge of the requested order: the edge's weight is counted twice"),
    "C06-m2": ("MultiIDStat._val becomes a cached_property",
               "a multi-stat object held across a mutation of the network: it reports the structure at first evaluation"),
    "C07-m1": ("Hypergraph.add_edges_from synchronises the id counter once after the loop using the last id",
               "copy-construction from a network whose explicit ids are not increasing and whose last id is a string: the copy's counter is not past the integer ids"),
    "C07-m2": ("DiHypergraph.copy() becomes self.__class__(self)",
               "attribute records of nodes / edges are shared between the copy and the original (no deep copy)"),
    "C18-m1": ("subhypergraph returns the (not yet frozen) empty network early when the node filter selects nothing",
               "an empty node selection: the returned network accepts mutation"),
    "C18-m2": ("Hypergraph.merge_duplicate_edges removes the duplicates by writing the tables directly instead of calling remove_edges_from",
               "a frozen hypergraph with duplicate edges: XGIError is raised by the later add_edges_from, but the duplicates are already gone"),
    "C08-m1": ("node_swap(order=k) builds edge_dict from H._edge.items() (the live member sets) instead of a copy",
               "a node swap restricted to one order: the argument hypergraph's member sets are edited in place"),
    "C08-m2": ("nodestats.degree(weight=) reads the weight with setdefault instead of get",
               "weighted degree on a network with an edge lacking the weight attribute: the attribute is written into the argument"),
    "C09-m1": ("Trie.search no longer sorts its argument while _powerset yields sorted tuples",
               "simpliciality measures on a hypergraph whose edges are stored in an order different from sorted order (non-monotone integer relabelling): the result depends on labels"),
    "C09-m2": ("degree_assortativity(exact=True) enumerates itertools.combinations of the members as stored",
               "exact assortativity on a relabelled / reordered hypergraph: the value changes"),
    "C10-m1": ("from_hif_dict drops attributed nodes that are in no incidence",
               "a HIF document with an isolated node carrying attributes"),
    "C10-m2": ("from_bipartite_graph always calls add_node_to_edge(v, u)",
               "a bipartite graph whose edge (u, v) orientation is edge-first"),
    "C11-m1": ("to_hif_dict omits the attributes of isolated nodes",
               "write / read round trip of a hypergraph with an attributed isolated node"),
    "C11-m2": ("read_incidence_matrix applies np.atleast_2d instead of ndmin=2 handling",
               "an incidence matrix file with a single edge column: the matrix is transposed"),
    "C14-m1": ("_plain_bfs rewritten; an isolated source is not in its own component",
               "connected components / node_connected_component of a network with an isolated node"),
    "C14-m2": ("single-source shortest path uses `not argmin` on a node id",
               "shortest path lengths in a network containing node 0"),
    "C16-m1": ("_index_to_edge_partition uses the wrong stride for blocks of different sizes",
               "uniform_HSBM / uniform_HPPM with unequal block sizes: the partition of generated edges is wrong"),
    "C16-m2": ("random_flag_complex no longer adds the node range before the cliques",
               "random_flag_complex with a small p: nodes that are in no clique are missing from the result"),
    "C17-m1": ("a configuration-model generator seeds the generator after the first draw",
               "two calls with the same seed differ in the first sample"),
    "C17-m2": ("random_flag_complex_d2 draws from np.random without seeding it",
               "two calls with the same seed give different complexes"),
    "C19-m1": ("Hypergraph.cleanup removes isolates before singletons",
               "a node whose only edge is a singleton edge: it is left isolated by cleanup(isolates=False, singletons=False)"),
    "C19-m2": ("subhypergraph uses `nodes or H.nodes`",
               "an empty node selection returns the whole node set"),
    "C12-m1": ("multiorder_laplacian reads the degrees off each Laplacian's diagonal divided by the order",
               "rescale_per_node=True with edges of order >= 2: every such order is over-weighted by its order"),
    "C12-m2": ("adjacency_tensor accumulates (`+= 1`) instead of setting the indicator",
               "a hypergraph with repeated edges of the requested order: entries become multiplicities"),
    "C13-m1": ("boundary_matrix (order 1) orients an edge by the row indices of its endpoints instead of sorting the labels",
               "a triangle whose nodes were inserted in an order that is neither increasing nor decreasing by label: B1 B2 != 0"),
    "C13-m2": ("boundary_matrix (general branch) computes the sign with `or` instead of adding the two orientation bits",
               "a non-default orientation where a face and its induced orientation are both 1: B1 B2 != 0"),
    "C15-m1": ("simplicial_edit_distance counts redundant missing faces with an integer instead of a de-duplicated set",
               "three or more maximal edges sharing a missing face: it is subtracted once per neighbour"),
    "C15-m2": ("Trie.search no longer sorts its argument",
               "node labels whose set iteration order is not sorted (ints >= 8 mixed with small ones): existing sub-edges are reported missing"),
    "C06-m3": ("dinodestats.in_degree / out_degree filter edges by len(tail) + len(head) instead of the size of their union",
               "a directed edge with a node in both tail and head, queried with order=: it is counted under the wrong order"),
    "C06-m4": ("IDStat.aspandas builds the Series from the id-set-ordered `_val` instead of asdict()",
               "ids whose set order differs from insertion order: aspandas disagrees positionally with aslist / asnumpy"),
    "C07-m3": ("Hypergraph pickling drops the id counter and restarts it at len(edges) on load",
               "integer edge ids that are not exactly 0..m-1: an unpickled network hands out an id that is already taken"),
    "C10-m3": ("from_bipartite_graph decides the link orientation once, from the first vertex",
               "a bipartite graph whose node- and edge-vertices were inserted interleaved: roles of some nodes and edges are swapped"),
    "C10-m4": ("to_hypergraph(SimplicialComplex) attaches node attributes after the edges instead of adding the nodes first",
               "a simplicial complex with isolated nodes: they (and their attributes) are lost"),
    "C14-m3": ("to_graph relabels with the index map returned by adjacency_matrix",
               "a hypergraph without edges whose labels are not 0..n-1: the projection graph has vertices 0..n-1"),
    "C14-m4": ("single_source_shortest_path_length expands the first reached unvisited node instead of the closest one",
               "a cycle of length >= 5: a node first reached along the longer way keeps the larger distance (and symmetry fails)"),
    "C16-m3": ("_index_to_edge_partition precomputes strides from the leading block sizes (cumprod) instead of the trailing ones",
               "blocks of unequal size: the decoding is no longer a bijection (one pair twice, one never)"),
    "C16-m4": ("flag_complex_d2 tests `if p2:` instead of `if p2 is not None:`",
               "p2 = 0: all triangles are kept instead of none"),
    "C03-m3": ("SimplicialComplex.add_simplices_from (dict branch) tests faces against a snapshot `existing` taken before the loop",
               "two simplices of one bulk call sharing a face: the face is added twice (duplicate simplex)"),
    "C03-m4": ("SimplicialComplex.remove_simplex_id removes only the immediate cofaces",
               "removing an edge of a tetrahedron: the tetrahedron stays although one of its faces is gone (closure broken)"),
    "C05-m3": ("Hypergraph.cleanup removes isolates before singletons",
               "cleanup(isolates=False, singletons=False) leaves a node isolated (an effect the call promises not to leave)"),
    "C05-m4": ("DiHypergraph.remove_node(strong=True) merged loop with if/elif",
               "strong removal next to a node that is in both head and tail of the edge"),
    # round 4
    "C01-m3": ("Hypergraph.double_edge_swap compares only the two edge sizes in its size/degree guard",
               "the same node passed as n_id1 and n_id2, member of both (different) edges: the swap is accepted, an edge keeps listing the node while the node's memberships drop it"),
    "C01-m4": ("Hypergraph.remove_edges_from becomes two passes (detach all memberships first, delete the edges afterwards)",
               "a call that raises part-way (missing id after a valid one, or the same id twice): detached edges stay in the edge table with all their members"),
    "C03-m5": ("SimplicialComplex.add_simplices_from (dict format) tests the collected faces against a set of member sets built once before the loop",
               "two overlapping simplices in one dict-format call whose shared face is met in different node order ((2,3) and (3,2)): two ids carry the same node set"),
    "C05-m5": ("Hypergraph.merge_duplicate_edges no longer sorts the duplicate ids for rename='first' / 'tuple'",
               "duplicate edges whose explicit ids were inserted out of increasing order (7 then 3): the merged edge keeps 7 / the tuple is (7, 3)"),
    "C05-m6": ("DiHypergraph.set_edge_attributes (dict-of-dicts) hoists the per-entry try/except IDNotFound around the whole loop",
               "an unknown edge id listed before known ones: the loop stops at the unknown id, the later edges never receive their attributes"),
    "C06-m5": ("IDView.neighbors (s > 1) gathers candidates only through bipartite ids that themselves have at least s neighbours",
               "s >= 3 and two ids whose shared elements all have fewer than s neighbours: neighbours are missing"),
    "C06-m6": ("MultiIDStat._val memoises the table of statistic values on first evaluation",
               "a multi-stat object read, the network mutated, the same object read again: stale and mutually inconsistent outputs"),
    "C19-m3": ("convert_labels_to_integers records the old label inside add_nodes_from as {label_attribute: n, **old_attrs}",
               "a node that already carries a 'label' attribute (relabelling twice, or cleanup after a relabelling): the recorded old label is stale"),
    "C19-m4": ("Hypergraph.__lshift__ no longer adds the right operand's nodes explicitly",
               "a right operand with an isolated node absent from the left operand: the node set of H1 << H2 is not the union"),
    "C14-m5": ("", ""),
    "C14-m6": ("", ""),
}

for name in sorted(os.listdir(ROOT)):
    d = os.path.join(ROOT, name)
    if not os.path.isfile(os.path.join(d, "patch.diff")):
        continue
    mp = os.path.join(d, "meta.json")
    meta = json.load(open(mp)) if os.path.exists(mp) else {}
    meta["property"] = name[:3]
    if name in D:
        meta["change"], meta["needs_to_manifest"] = D[name]
    meta["origin"] = "fresh sub-agent given only the property text and a scratch git worktree of /repo (nothing from /verif)"
    meta["confirmed_by"] = CONFIRM
    meta["how_to_run"] = "git -C /repo apply /verif/seeded/%s/patch.diff && (cd /verif && ./check %s --tier quick); git -C /repo checkout -- ." % (name, name[:3])
    order = ["property", "change", "needs_to_manifest", "origin", "confirmed_by", "how_to_run", "check"]
    meta = {k: meta[k] for k in order if k in meta} | {k: v for k, v in meta.items() if k not in order}
    json.dump(meta, open(mp, "w"), indent=1)
    print(name, "detected" if meta.get("check", {}).get("detected") else "check block missing / not detected")
