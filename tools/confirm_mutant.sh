#!/bin/sh
# tools/confirm_mutant.sh <name> <property> <diff> <demo> : confirm a seeded change in a scratch worktree and file it under /verif/seeded/<name>/
name=$1; pid=$2; diff=$3; demo=$4
wt=/tmp/wt-confirm-$$
git -C /repo worktree add -q --detach $wt HEAD || exit 9
cd $wt
git apply "$diff" || { echo "$name: patch does not apply to HEAD"; git -C /repo worktree remove --force $wt; exit 9; }
/venv/bin/python -m pytest -q -p no:cacheprovider --timeout=900 --continue-on-collection-errors --junitxml=$wt/junit.xml >/dev/null 2>&1
tests=$(python3 - <<PY
import json, xml.etree.ElementTree as ET
b=json.load(open('/root/.vp/BASELINE.json')); stable=set(b['stable_pass'])
passed=set()
for tc in ET.parse('$wt/junit.xml').iter('testcase'):
    if not any(ch.tag in('failure','error','skipped') for ch in tc): passed.add(tc.get('classname','')+'::'+tc.get('name',''))
import sys
print(len(stable-passed))
print(' '.join(sorted(stable-passed)), file=sys.stderr)
PY
)
if [ "$tests" != "0" ]; then
  # the two drawing tests are flaky on the untouched checkout as well (DESIGN 11.3): re-run just those, with the change still applied
  if /venv/bin/python -m pytest -q -p no:cacheprovider --timeout=900 "tests/drawing/test_draw.py::test_issue_515" "xgi/drawing/draw.py::xgi.drawing.draw.draw" >/dev/null 2>&1; then
    tests=$(python3 - <<PY
import json, xml.etree.ElementTree as ET
b=json.load(open('/root/.vp/BASELINE.json')); stable=set(b['stable_pass'])
passed=set()
for tc in ET.parse('$wt/junit.xml').iter('testcase'):
    if not any(ch.tag in('failure','error','skipped') for ch in tc): passed.add(tc.get('classname','')+'::'+tc.get('name',''))
print(len(stable-passed-{'tests.drawing.test_draw::test_issue_515','xgi.drawing.draw::xgi.drawing.draw.draw'}))
PY
)
    echo "$name: drawing tests re-run alone pass; other stable tests missing: $tests"
  fi
fi
sed "s#/tmp/wt-$pid#$wt#g" "$demo" > $wt/_demo.py
/venv/bin/python _demo.py >/dev/null 2>&1; with=$?
git checkout -q -- xgi
/venv/bin/python _demo.py >/dev/null 2>&1; without=$?
echo "$name: stable-tests-missing=$tests demo-with-change-exit=$with demo-without-exit=$without"
if [ "$tests" = "0" ] && [ "$with" != "0" ] && [ "$without" = "0" ]; then
  mkdir -p /verif/seeded/$name
  cp "$diff" /verif/seeded/$name/patch.diff
  sed "s#/tmp/wt-$pid#/repo#g" "$demo" > /verif/seeded/$name/demo.py
  echo confirmed > /verif/seeded/$name/.confirmed
fi
cd /; git -C /repo worktree remove --force $wt
