import ast,sys
class Strip(ast.NodeTransformer):
    def visit_FunctionDef(self,n):
        self.generic_visit(n)
        if n.body and isinstance(n.body[0],ast.Expr) and isinstance(getattr(n.body[0],'value',None),ast.Constant) and isinstance(n.body[0].value.value,str):
            n.body=n.body[1:] or [ast.Pass()]
        return n
    visit_ClassDef=visit_FunctionDef
    visit_Module=visit_FunctionDef
for f in sys.argv[1:]:
    print('#'*20,f)
    print(ast.unparse(Strip().visit(ast.parse(open(f).read()))))
