#!/usr/bin/env python3
"""Apply every seeded change under /verif/seeded to /repo (one at a time, undone straight afterwards), run the
quick check of the property it breaks, and record the outcome in its meta.json."""
import json, os, subprocess, sys, time
ROOT = "/verif/seeded"
only = sys.argv[1:]
for name in sorted(os.listdir(ROOT)):
    d = os.path.join(ROOT, name)
    patch = os.path.join(d, "patch.diff")
    if not os.path.isfile(patch) or (only and name not in only):
        continue
    pid = name[:3]
    meta_path = os.path.join(d, "meta.json")
    meta = json.load(open(meta_path)) if os.path.exists(meta_path) else {}
    meta.setdefault("property", pid)
    if subprocess.call(["git", "-C", "/repo", "diff", "--quiet"]) != 0:
        print("repo dirty, abort"); sys.exit(9)
    if subprocess.call(["git", "-C", "/repo", "apply", patch]) != 0:
        meta["check"] = {"applies_to_current_head": False}
        json.dump(meta, open(meta_path, "w"), indent=1)
        print(name, "patch does not apply to the current HEAD")
        continue
    t = time.time()
    try:
        p = subprocess.run(["./check", pid, "--tier", "quick"], cwd="/verif", stdout=subprocess.PIPE, stderr=subprocess.STDOUT, timeout=1500)
        out, rc = p.stdout.decode(), p.returncode
    except subprocess.TimeoutExpired:
        out, rc = "timeout", 124
    finally:
        subprocess.call(["git", "-C", "/repo", "checkout", "--", "."])
    lines = [l for l in out.splitlines() if l.startswith(("VIOLATION", "KNOWN-FINDING", "UNDECIDED", "property"))]
    meta["check"] = {"applies_to_current_head": True, "command": "./check %s --tier quick" % pid, "exit_code": rc, "detected": rc == 1,
                     "with_replayed_input": any(l.startswith("VIOLATION") and "no-failing-input-found" not in l for l in lines),
                     "output": lines[:8], "wall_s": round(time.time() - t, 1),
                     "repo_head": subprocess.check_output(["git", "-C", "/repo", "rev-parse", "--short", "HEAD"]).decode().strip()}
    json.dump(meta, open(meta_path, "w"), indent=1)
    print(name, "rc=%d" % rc, lines[:2])
