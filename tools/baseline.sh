#!/bin/sh
# run the pinned suite and compare with BASELINE.json stable_pass
cd /repo && /venv/bin/python -m pytest -ra -q -p no:cacheprovider --timeout=900 --continue-on-collection-errors --junitxml=/var/tmp/xgi-junit.xml >/var/tmp/xgi-pytest.log 2>&1
python3 - <<'PY'
import json, xml.etree.ElementTree as ET
b=json.load(open('/root/.vp/BASELINE.json'))
stable=set(b['stable_pass'])
t=ET.parse('/var/tmp/xgi-junit.xml')
passed=set()
for tc in t.iter('testcase'):
    name=tc.get('classname','')+'::'+tc.get('name','')
    ok=not any(ch.tag in('failure','error','skipped') for ch in tc)
    if ok: passed.add(name)
missing=sorted(stable-passed)
print('stable',len(stable),'passed-now',len(passed),'stable-but-not-passing',len(missing))
for m in missing[:20]: print('  MISSING',m)
PY
