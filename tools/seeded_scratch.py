#!/usr/bin/env python3
"""Like seeded_run.py, but without touching /repo: each seeded change is applied to a scratch git worktree of /repo's HEAD
(under /var/tmp, removed afterwards) and the property's quick check is pointed at it with PYVC_REPO (evidence of such runs goes to
out/evidence-scratch/, never to evidence/).  Usage: tools/seeded_scratch.py <name> [<name> ...]"""
import json, os, subprocess, sys, time
ROOT = "/verif/seeded"
for name in sys.argv[1:]:
    d = os.path.join(ROOT, name)
    patch = os.path.join(d, "patch.diff")
    pid = name[:3]
    meta_path = os.path.join(d, "meta.json")
    meta = json.load(open(meta_path)) if os.path.exists(meta_path) else {}
    meta.setdefault("property", pid)
    wt = "/var/tmp/wt-s-%s-%d" % (name, os.getpid())
    subprocess.check_call(["git", "-C", "/repo", "worktree", "add", "-q", "--detach", wt, "HEAD"])
    try:
        if subprocess.call(["git", "-C", wt, "apply", patch]) != 0:
            meta["check"] = {"applies_to_current_head": False}
            print(name, "patch does not apply")
        else:
            t = time.time()
            try:
                p = subprocess.run(["./check", pid, "--tier", "quick"], cwd="/verif", env=dict(os.environ, PYVC_REPO=wt), stdout=subprocess.PIPE, stderr=subprocess.STDOUT, timeout=1500)
                out, rc = p.stdout.decode(), p.returncode
            except subprocess.TimeoutExpired:
                out, rc = "timeout", 124
            lines = [l for l in out.splitlines() if l.startswith(("VIOLATION", "KNOWN-FINDING", "UNDECIDED", "property"))]
            meta["check"] = {"applies_to_current_head": True, "command": "PYVC_REPO=<scratch worktree with the patch> ./check %s --tier quick" % pid, "exit_code": rc, "detected": rc == 1,
                             "with_replayed_input": any(l.startswith("VIOLATION") and "no-failing-input-found" not in l for l in lines),
                             "output": lines[:8], "wall_s": round(time.time() - t, 1),
                             "repo_head": subprocess.check_output(["git", "-C", "/repo", "rev-parse", "--short", "HEAD"]).decode().strip()}
            print(name, "rc=%d" % rc, lines[:3])
    finally:
        subprocess.call(["git", "-C", "/repo", "worktree", "remove", "--force", wt])
    json.dump(meta, open(meta_path, "w"), indent=1)
