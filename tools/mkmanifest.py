#!/usr/bin/env python3
"""Regenerate MANIFEST.json from the table below (kept valid at all times)."""
import json, os, subprocess
ROOT = os.path.dirname(os.path.dirname(os.path.abspath(__file__)))
props = [json.loads(l) for l in open(os.path.join(ROOT, "properties.jsonl"))]

PROOF_NOTE = ("Trusted base: the pyvc symbolic executor/VC generator and its prelude of modelled built-ins (listed in each evidence file), z3; "
              "assumptions A1-A8 of DESIGN 1.3. Functions of the property outside the kernel listed in the evidence are not covered.")

CLAIMED = {
 "C01": dict(text="Deductive: UInv (two-way incidence, closed keys, one attribute record, None never an id) is a pre/postcondition of every undirected mutator on every normal and exceptional exit, discharged by z3 for symbolic state and arguments; histories by induction over calls. Bounded stand-in (same contracts on the real functions over small inputs) runs beside it and is not counted.",
             ref="4/C01", technique="contract-based deductive verification: AST->VC generation over the real source, z3 (unbounded, quantified) + ground counter-models replayed natively"),
 "C04": dict(text="Deductive: Fresh (every integer-like edge id < counter) and existing-edges-kept are invariants/postconditions of every adder and of update_uid_counter on every exit.",
             ref="4/C04", technique="contract-based deductive verification (pyvc + z3), counter-models replayed natively"),
 "C05": dict(text="Deductive: functional postconditions (documented effect, error classes, state unchanged on rejection) of the mutators of the three classes, discharged by z3 (exact effects for the single-element operations and for remove_edges_from / remove_nodes_from; frame-style `only adds` / `only removes` effects for the bulk adders and the in-place helpers whose value computation is abstracted); what is not covered is listed in the evidence.",
             ref="4/C05", technique="contract-based deductive verification (pyvc + z3), counter-models replayed natively"),
}
CLAIMED.update({
 "C02": dict(text="Deductive: DInv (tail<->out-membership, head<->in-membership, closed keys, one attribute record) plus Fresh is a pre/postcondition of every DiHypergraph mutator on every normal and exceptional exit, discharged by z3 for symbolic state and arguments.",
             ref="4/C02", technique="contract-based deductive verification (pyvc + z3), counter-models replayed natively"),
 "C08": dict(text="Frame clause `modifies nothing on the network argument` for every public callable (enumerated from the ASTs on every run), discharged modularly by framecheck against callee summaries; in_place flags constant-folded to False; results of view accessors proved fresh. Native snapshot stand-in beside it, not counted.",
             ref="4/C08", technique="contract-based frame checking (modular syntactic discharge of frame/ownership obligations) + bounded native snapshot stand-in", category="proof"),
 "C17": dict(text="Effect frame on the global random generators: every read is dominated by seeding with the function's own seed and every RNG-using callee receives the seed; discharged syntactically per function. Determinism then follows from assumed library contracts; native double-run stand-in beside it.",
             ref="4/C17", technique="effect-frame contracts on RNG state (rngcheck) + native double-run replay", category="other"),
 "C18": dict(text="Deductive: freeze() shadows every direct structural mutator (set recomputed from the ASTs each run); indirect mutators raise XGIError or leave the tables unchanged on a frozen instance. Coverage of the indirect mutators and of subhypergraph/copy is partial (see evidence).",
             ref="4/C18", technique="contract-based deductive verification (pyvc + z3) over an AST-derived mutator set"),
})
CLAIMED["C03"] = dict(text="Deductive: SInv = UInv + non-empty + duplicate-free + downward closed (quantifying over set-valued subsets) is a pre/postcondition of the complex's own mutators; removal removes exactly the simplex and its supersets; max_order bound; has_simplex answers membership. _subfaces/powerset enter through assumed contracts of itertools.combinations.",
             ref="4/C03", technique="contract-based deductive verification (pyvc + z3, set-valued quantifiers), counter-models replayed natively")
THIN = " Claimed as `other`, not `proof`: the contract kernel is a small part of this property's surface; most of it is covered by the labelled bounded stand-in."
PARTIAL = " The remaining functions of the property are covered by a bounded stand-in (native oracle, labelled bounded in the evidence, never counted as discharged)."
CLAIMED.update({
 "C06": dict(text="Deductive for the statistic definitions (degree / size / order, directed in/out/total degrees, head/tail sizes: VCs from the real comprehensions, z3) and syntactic liveness obligations (views alias the network's own tables, tables are never rebound, statistics are never cached)." + PARTIAL,
             ref="4/C06", technique="contract-based deductive verification (pyvc + z3) of the statistic definitions + syntactic liveness obligations; bounded native oracle for formats/filters"),
 "C07": dict(text="Ownership / deep-copy obligations of copy() and the pickle hooks discharged on the ASTs (fresh target, every attribute record deep-copied, counter copied, six state fields moved one-to-one); fresh sets in the adders are executor ownership obligations (C01-C03 kernels)." + PARTIAL,
             ref="4/C07", technique="ownership / frame contracts discharged syntactically per function + bounded native equality/independence oracle"),
 "C09": dict(text="Corollary of label-free contracts: the C09-tagged functional contracts (degree/size statistics, BFS reach sets) mention ids only through = and membership, hence are equivariant; plus sort-coercion obligations (a list of member sets is never indexed by an id)." + PARTIAL + THIN,
             ref="4/C09", technique="contract-based deductive verification (label-free functional contracts, pyvc + z3) + typed-subscript obligations; bounded relabelling oracle", category="other"),
 "C10": dict(text="Deductive for from_bipartite_edgelist (incidences of the result are exactly the listed pairs; loop invariant over add_node_to_edge's contract)." + PARTIAL + THIN,
             ref="4/C10", technique="contract-based deductive verification (pyvc + z3) of the pure-Python converter kernel; bounded round-trip oracle for the other pairs", category="other"),
 "C11": dict(text="Glue obligations of the readers/writers discharged as dataflow checks on the ASTs (serialise before opening, write exactly the serialised dict, parse exactly the file text with the caller's casts, collection paths agree); I/O libraries enter as assumed contracts." + PARTIAL + THIN,
             ref="4/C11", technique="contract-based glue obligations (dataflow on the AST) modulo assumed contracts of json/str/numpy; bounded round trips on real files", category="other"),
 "C14": dict(text="Deductive for _plain_bfs and node_connected_component: the returned set is the least set containing the source and closed under the neighbour relation (two loop invariants + one instance of the least-fixpoint induction principle)." + PARTIAL,
             ref="4/C14", technique="contract-based deductive verification (pyvc + z3, loop invariants for BFS); bounded comparison with networkx for paths/clustering/graph builders"),
 "C16": dict(text="Deductive for trivial_hypergraph (exactly the nodes 0..n-1, no edges) on top of add_nodes_from's node-set contract, and for the three index decoders: the return expressions of _index_to_edge_prod / _index_to_edge_partition and the loop nest of _index_to_edge_comb (binomial unranking; the while loop as a fuel-bounded recursion) are translated from the AST into Lean definitions on every run and Lean's kernel checks that decoding has the spec encoder as left (for tuples also right) inverse with every digit in range, resp. that the decoded combination has m strictly increasing entries in [0, n) whose lexicographic rank is the index - i.e. the decodings are bijections onto tuples, block products and combinations. The random models built on them and the simplicial generators are bounded." + PARTIAL + THIN,
             ref="4/C16, 11.6", technique="contract-based deductive verification: pyvc + z3 for the deterministic constructor kernel, AST->Lean 4 definitions with kernel-checked inverse/range theorems for the index decoders; exhaustive decoding tables and seeded generator grid as bounded stand-in", category="other"),
 "C19": dict(text="Deductive for subhypergraph (result frozen and two-way consistent, argument unchanged, on every path) by composition of the adders' contracts, and for Hypergraph.cleanup(connected=False, relabel=False, in_place=True): no singleton edge / no isolated node is left when their removal is requested, proved from the exact effect contracts of remove_edges_from / remove_nodes_from (themselves proved with loop invariants) and the assumed view accessors singletons()/isolates(); copy/dual at invariant level. The set-theoretic definitions of the other derived networks are bounded." + PARTIAL,
             ref="4/C19", technique="contract-based deductive verification (pyvc + z3) by composition of mutator contracts; bounded native oracle for the set-theoretic definitions"),
})
CLAIMED.update({
 "C13": dict(text="Deductive for the sign bookkeeping of boundary_matrix only: the induced-orientation comprehension and the right-hand sides of the three matrix assignments are translated from the AST into Lean definitions on every run; Lean's kernel checks that every entry is +1 or -1 and that the two routes from a simplex to each of its codimension-2 faces carry opposite signs (general branch, and across the order-1 branch on a triangle) - the algebraic core of `consecutive boundary matrices multiply to zero` for every orientation assignment. Column support, index maps, sorting of mixed labels, Hodge Laplacians and the kernel dimension are bounded (exhaustive complexes on <= 4 vertices x orientations)." + PARTIAL + THIN,
             ref="11.8", technique="contract-based deductive verification: AST->Lean 4 definitions of the sign expressions with kernel-checked cancellation theorems; bounded native oracle (exhaustive small complexes x orientation assignments) for the matrix assembly", category="other"),
 "C15": dict(text="Deductive for the normalisation count only: the loop of _max_number_of_subfaces is translated from the AST into a Lean fold on every run and Lean's kernel checks that it equals the number of node sets of a maximal face with min_size <= size < max_size (sum of binomial coefficients), and is non-negative. The Trie, maximal-edge detection, the inclusion-exclusion over overlapping maximal faces and the three measures are bounded (brute-force enumeration on exhaustive small hypergraphs)." + PARTIAL + THIN,
             ref="11.8", technique="contract-based deductive verification: AST->Lean 4 definition of the counting loop with kernel-checked closed form; bounded native oracle (brute-force definitions on exhaustive small hypergraphs) for the measures", category="other"),
})
CLAIMED["C12"] = dict(text="Glue obligations only: dataflow facts on the ASTs of incidence_matrix (index maps number the iterated ids 0..n-1, the returned maps invert them, every (node, edge) membership appends exactly node_dict[node] / edge_dict[edge] / weight(node, edge, H) to rows / cols / data, sparse and dense assembly use (data, (rows, cols)) with shape (num_nodes, num_edges), maps are returned in (node, edge) order) and of adjacency_matrix (I.dot(I.T), diagonal cleared in both branches, thresholding by s). A wrong flow is refuted; a rewritten shape is undecided unless the oracle shows misbehaviour. Every numeric statement of the property (entries of all matrices, symmetry, row sums, PSD, sparse/dense agreement) is bounded (brute-force construction from members() on exhaustive small hypergraphs x option grid)." + PARTIAL + THIN,
             ref="11.10", technique="contract-based glue obligations (dataflow on the AST of the only Python-level matrix code) modulo assumed contracts of numpy/scipy; bounded native oracle for every matrix", category="other")

# fourth session: additions to the level texts (DESIGN 11.12)
CLAIMED["C06"]["text"] += (" Also deductive (DESIGN 11.12): the view accessors on an unfiltered view - __len__/__contains__/__getitem__, neighbors (s = 1 and s > 1), memberships / members, the directed "
                           "dimemberships / dimembers / head / tail / members, lookup, isolates, singletons, empty (the last four modulo the assumed from_view / filterby-by-name models) - and the handshake identity as a Lean lemma over UInv / DInv.")
CLAIMED["C05"]["text"] += (" The attribute setters of both classes carry their documented effect as a postcondition with loop invariants (DESIGN 11.12). merge_duplicate_edges' rename / merge rules are covered by a bounded native oracle "
                           "(transcription of the docstring), labelled bounded.")
CLAIMED["C03"]["text"] += (" A bounded native oracle (short histories over all five bulk formats, labelled bounded, DESIGN 11.12) stands beside the proof for inputs whose obligations are refuted only under abstraction.")
CLAIMED["C14"]["text"] += (" is_connected is under contract as well (true iff the first node reaches every node), on top of _plain_bfs's contract, the definitional rules of reach and one assumed fact about finite cardinalities (DESIGN 11.12).")
CLAIMED["C10"]["text"] += (" to_hyperedge_dict is under contract through the verified EdgeView.members(dtype=dict) accessor contract.")
NA_REASON = {
 "C20": "no contract within reach: the observables are matplotlib collections and networkx float layouts (external libraries, floating point); see DESIGN 7",
}
checks = []
for pid, d in sorted(CLAIMED.items()):
    checks.append(dict(property_id=pid, quick_cmd="./check %s --tier quick" % pid, thorough_cmd="./check %s --tier thorough" % pid,
                       evidence_file="/verif/evidence/%s.json" % pid, replay_cmd_template="./check %s --replay {path}" % pid,
                       engine="pyvc", level_claimed=dict(category=d.get("category", "proof"), text=d["text"], design_ref=d["ref"]),
                       level_note=PROOF_NOTE, technique=d["technique"]))
na = [dict(property_id=p["id"], reason=NA_REASON.get(p["id"], "check not built yet (build in progress, see DESIGN 10 for the order)"))
      for p in props if p["id"] not in CLAIMED]
try:
    fixes = subprocess.check_output(["git", "-C", "/repo", "log", "--format=%h %s", "5f535cc..HEAD"]).decode().splitlines()
except Exception:
    fixes = []
m = dict(version=1,
         setup_cmd="python3-vt -m compileall -q pyvc contracts >/dev/null; mkdir -p out evidence",
         hooks=dict(guard="XGI_VERIF", enable="no hooks: pyvc parses /repo source text and replays natively; nothing in /repo is instrumented",
                    baseline_off_cmd="cd /repo && /venv/bin/python -m pytest -ra -q -p no:cacheprovider --timeout=900 --continue-on-collection-errors",
                    source_commits=[], add_only=True),
         engines=[dict(name="pyvc", path="/verif/pyvc", serves_properties=sorted(CLAIMED), kind_free_text="AST->VC generator + symbolic executor over /repo's working tree, sidecar contracts in /verif/contracts, z3 back end (quantified for proofs, ground-expanded for counter-models), native replay under /venv/bin/python")],
         checks=checks,
         notes="fix: commits in /repo (genuine defects found by the checks): " + "; ".join(fixes),
         not_applicable=na)
json.dump(m, open(os.path.join(ROOT, "MANIFEST.json"), "w"), indent=1)
print("claimed:", sorted(CLAIMED), "n/a:", len(na))
