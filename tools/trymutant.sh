#!/bin/sh
# tools/trymutant.sh <property> <diff> : apply a seeded change to /repo, run the property's quick check, undo.
pid=$1; diff=$2
cd /repo || exit 9
git diff --quiet || { echo "repo dirty"; exit 9; }
git apply "$diff" || { echo "patch does not apply"; exit 9; }
cd /verif && ./check "$pid" --tier quick; rc=$?
git -C /repo checkout -- . 
echo "check exit code: $rc"
exit $rc
